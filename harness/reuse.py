"""A lazy result object (inverse, pseudo-inverse, matrix function) has no memory: what it returns for an operand does not depend
on what it was applied to before, on the caller refilling its buffer in place, or on the caller overwriting an earlier result
(DESIGN 4.22).  Differential oracle against a *fresh* object made the same way (the routines are deterministic)."""
import numpy as np

from harness.core import is_err


def reuse_checks(ctx, make, b, b2, site, preds, rel_tol=1e-6):
    """make() -> a new lazy object; b, b2: two operands of one shape and dtype."""
    fresh = ctx.call(make)
    if is_err(fresh):
        return
    want = ctx.call(lambda: fresh @ b2.copy())
    obj = ctx.call(make)
    if is_err(want) or is_err(obj):
        return
    want = np.array(want)
    scale = max(float(np.linalg.norm(want)), 1e-300)
    buf = b.copy()
    ctx.guard(b2)
    x1 = ctx.call(lambda: obj @ buf)
    if is_err(x1):
        return
    buf[...] = b2  # the caller refills its own buffer in place and applies the same object again

    def judge(x, what):
        if is_err(x):
            ctx.check("reused-object-same-as-fresh", False, site=site, preds=dict(preds, after=what), detail={"error": repr(x)})
            return False
        x = np.asarray(x)
        err = float(np.linalg.norm(x - want)) / scale if x.shape == want.shape and np.all(np.isfinite(x)) else np.inf
        return ctx.check("reused-object-same-as-fresh", bool(err <= rel_tol), site=site, preds=dict(preds, after=what),
                         detail={"rel_diff_to_fresh_object": err, "tol": rel_tol, "shape": list(x.shape)})

    x2 = ctx.call(lambda: obj @ buf)
    if not judge(x2, "buffer-refilled-in-place"):
        return
    if ctx.scribble(np.asarray(x2), obj, buf, b2):
        x3 = ctx.call(lambda: obj @ buf)  # same operand again, after the caller overwrote the solution it was handed
        if not judge(x3, "caller-overwrote-result"):
            return
    b3 = b2.copy()
    x4 = ctx.call(lambda: obj @ b3)  # an equal operand in another array
    if not judge(x4, "equal-operand-new-array"):
        return
    # the same object after the caller asked it for its dense form (whatever to_dense() leaves behind - a cached matrix, a
    # converged-looking info record - later products are still the routine's own answer for that operand)
    if max(getattr(obj, "shape", (999, 999))) <= 40:
        Dd = ctx.call(obj.to_dense)
        if not is_err(Dd):
            if not judge(ctx.call(lambda: obj @ b2.copy()), "product-after-to_dense"):
                return
    # an operand of the same shape and dtype that is smaller by six orders of magnitude, after the larger ones (anything the
    # object kept from the earlier solves - a warm start, a scale, a tolerance - is now wrong by that factor)
    b5 = (b2 * 1e-6).astype(b2.dtype)
    if np.all(np.isfinite(b5)) and float(np.abs(b5).max(initial=0.0)) > 1e-290:
        fresh2 = ctx.call(make)
        w5 = None if is_err(fresh2) else ctx.call(lambda: fresh2 @ b5.copy())
        if w5 is not None and not is_err(w5):
            want = np.array(w5)
            scale = max(float(np.linalg.norm(want)), 1e-300)
            judge(ctx.call(lambda: obj @ b5), "much-smaller-operand-after-larger-ones")
