"""Reference interpreter (DESIGN 3.3): spec -> dense matrix, with plain NumPy and no cola import.

``dense(spec)`` returns ``Ref(M, B, dtype)``: ``M`` the represented matrix in float64/complex128,
``B`` the same expression evaluated on absolute values (a forward-error majorant: every entry of
any floating-point evaluation of the expression differs from ``M`` by at most ``gamma * B``), and
``dtype`` the NumPy-promoted dtype of the dense computation.
"""
from collections import namedtuple

import numpy as np

from harness import payload as P

class Ref(namedtuple("Ref", "M B dtype eps")):
    """eps: the coarsest machine epsilon among the leaves (entries of a float32 leaf are only float32-accurate)."""
    def __new__(cls, M, B, dtype, eps=None):
        return super().__new__(cls, M, B, np.dtype(dtype), float(np.finfo(np.dtype(dtype)).eps) if eps is None else eps)

LEAVES = {"Dense", "Generic", "Triangular", "Sparse", "ScalarMul", "Identity", "Diagonal", "Tridiagonal", "Permutation",
          "Householder", "Kernel", "FFT", "Jacobian", "Hessian"}


def _wide(a):
    a = np.asarray(a)
    return a.astype(np.complex128 if np.iscomplexobj(a) else np.float64)


def to_index(s, n):
    if "s" in s:
        return slice(*s["s"])
    return np.asarray(s["i"], dtype=np.int64)


def children(node):
    if "args" in node:
        return list(node["args"])
    if "arg" in node:
        return [node["arg"]] + ([node["other"]] if "other" in node else []) + list(node.get("head", [])) + list(node.get("tail", []))
    return []


def dense(node):
    k = node["k"]
    if k in LEAVES:
        return _leaf(node)
    if k in ("Transpose", ):
        r = dense(node["arg"])
        return Ref(r.M.T, r.B.T, r.dtype, r.eps)
    if k == "Adjoint":
        r = dense(node["arg"])
        return Ref(r.M.conj().T, r.B.T, r.dtype, r.eps)
    if k in ("NoDispatch", "Annot"):
        return dense(node["arg"])
    if k == "Scaled":  # c * A through the public overload
        r = dense(node["arg"])
        c = P.as_scalar(node["c"])
        dt = np.result_type(r.dtype, np.complex64) if isinstance(c, complex) else r.dtype
        return Ref(c * r.M, abs(c) * r.B, dt, r.eps)
    if k == "Symm":  # A + A^T / A + A^H (either order): the *same* operator object appears twice, once through a view
        r = dense(node["arg"])
        X = r.M.T if node["form"] == "T" else r.M.conj().T
        return Ref(r.M + X, r.B + r.B.T, r.dtype, r.eps)
    if k == "Gram":  # A^T A, A^H A, A A^T, A A^H  (the factor appears twice)
        r = dense(node["arg"])
        f = node["form"]
        # ("other": the second member of the pair is an operator of the same kind over *other* data - E^T F, not a Gram pair at all)
        r2 = dense(node["other"]) if "other" in node else r
        if f in ("TA", "HA"):
            X = r.M.T if "T" in f else r.M.conj().T
            M, Bd = X @ r2.M, r.B.T @ r2.B
        else:
            X = r2.M.T if "T" in f else r2.M.conj().T
            M, Bd = r.M @ X, r.B @ r2.B.T
        dt, eps = np.result_type(r.dtype, r2.dtype), max(r.eps, r2.eps)
        for c in reversed(node.get("head", [])):
            h = dense(c)
            M, Bd, dt, eps = h.M @ M, h.B @ Bd, np.result_type(dt, h.dtype), max(eps, h.eps)
        for c in node.get("tail", []):
            t = dense(c)
            M, Bd, dt, eps = M @ t.M, Bd @ t.B, np.result_type(dt, t.dtype), max(eps, t.eps)
        return Ref(M, Bd, dt, eps)
    if k == "Routine":
        return _routine(node)
    if k == "Sliced":
        r = dense(node["arg"])
        i0 = to_index(node["slices"][0], r.M.shape[0])
        i1 = to_index(node["slices"][1], r.M.shape[1])
        return Ref(r.M[i0, :][:, i1], r.B[i0, :][:, i1], r.dtype, r.eps)
    rs = [dense(c) for c in node["args"]]
    dt = np.result_type(*[r.dtype for r in rs])
    eps = max(r.eps for r in rs)
    if k == "Product":
        M, B = rs[0].M, rs[0].B
        for r in rs[1:]:
            M, B = M @ r.M, B @ r.B
        return Ref(M, B, dt, eps)
    if k == "Sum":
        return Ref(sum(r.M for r in rs), sum(r.B for r in rs), dt, eps)
    if k == "Kronecker":
        M, B = rs[0].M, rs[0].B
        for r in rs[1:]:
            M, B = _kron(M, r.M), _kron(B, r.B)
        return Ref(M, B, dt, eps)
    if k == "KronSum":
        return Ref(_kronsum([r.M for r in rs]), _kronsum([r.B for r in rs]), dt, eps)
    if k == "BlockDiag":
        mult = node.get("mult") or [1] * len(rs)
        Ms = [r.M for r, c in zip(rs, mult) for _ in range(c)]
        Bs = [r.B for r, c in zip(rs, mult) for _ in range(c)]
        return Ref(_blockdiag(Ms), _blockdiag(Bs), dt, eps)
    if k == "Concatenated":
        ax = node["axis"]
        return Ref(np.concatenate([r.M for r in rs], axis=ax), np.concatenate([r.B for r in rs], axis=ax), dt, eps)
    raise ValueError(f"unknown kind {k}")


ITERATIVE = {"CG", "GMRES", "Lanczos", "Arnoldi"}


def _routine(node):
    """The operator a cola routine returns for the argument expression, as a matrix: inverse, pseudo-inverse, matrix
    function, Cholesky factor, or the product of the factors of plu / svd (which is the argument's matrix again).  The arguments
    are well conditioned by construction (harness/wellcond.py), Hermitian positive definite for the matrix functions."""
    r = dense(node["arg"])
    fn = node["fn"]
    M = r.M
    sv = np.linalg.svd(M, compute_uv=False) if M.size else np.ones(1)
    cond = float(sv.max(initial=1.0) / max(sv.min(initial=1.0), 1e-300))
    if fn == "inv":
        out = np.linalg.inv(M)
    elif fn == "pinv":
        out = np.linalg.pinv(M)
    elif fn in ("pluprod", "svdprod"):
        out = M
    elif fn == "cholL":
        out = np.linalg.cholesky((M + M.conj().T) / 2)
    else:
        w, V = np.linalg.eigh((M + M.conj().T) / 2)
        f = {"exp": np.exp, "log": np.log, "sqrt": np.sqrt, "isqrt": lambda x: 1 / np.sqrt(x), "pow2": lambda x: x**2,
             "pow-1": lambda x: 1 / x, "pow0.5": np.sqrt, "pow3": lambda x: x**3}[fn]
        out = (V * f(w)) @ V.conj().T
        cond = max(cond, float(np.abs(f(w)).max(initial=1.0) / max(np.abs(f(w)).min(initial=1.0), 1e-300)))
    Bd = np.full(out.shape, max(cond, 1.0) * max(float(np.abs(out).max(initial=0.0)), 1e-300))
    eps = max(r.eps, 1e-9) if node.get("alg") in ITERATIVE else r.eps
    return Ref(out, Bd, r.dtype, eps)


def _kron(A, B):
    m, n = A.shape
    p, q = B.shape
    out = np.zeros((m * p, n * q), dtype=np.result_type(A, B))
    for i in range(m):
        for j in range(n):
            out[i * p:(i + 1) * p, j * q:(j + 1) * q] = A[i, j] * B
    return out


def _kronsum(Ms):
    sizes = [M.shape[0] for M in Ms]
    N = int(np.prod(sizes))
    out = np.zeros((N, N), dtype=np.result_type(*Ms))
    for t, M in enumerate(Ms):
        left = int(np.prod(sizes[:t]))
        right = int(np.prod(sizes[t + 1:]))
        out = out + _kron(_kron(np.eye(left), M), np.eye(right))
    return out


def _blockdiag(Ms):
    R = sum(M.shape[0] for M in Ms)
    C = sum(M.shape[1] for M in Ms)
    out = np.zeros((R, C), dtype=np.result_type(*Ms))
    r = c = 0
    for M in Ms:
        out[r:r + M.shape[0], c:c + M.shape[1]] = M
        r += M.shape[0]
        c += M.shape[1]
    return out


def _leaf(node):
    k = node["k"]
    a = P.arrays(node)
    if k in ("Dense", "Generic", "Triangular"):
        M = _wide(a["A"])
        if k == "Dense" and node.get("int_dtype"):  # integer-valued payload handed to cola in an integer dtype
            return Ref(M, np.abs(M), np.int64, float(np.finfo(np.float64).eps))
        return Ref(M, np.abs(M), a["A"].dtype)
    if k == "Sparse":
        m, n = a["shape"]
        M = np.zeros((m, n), dtype=_wide(a["data"]).dtype)
        B = np.zeros((m, n))
        for v, i, j in zip(a["data"], a["rows"], a["cols"]):
            M[i, j] += v
            B[i, j] += abs(v)
        return Ref(M, B, a["data"].dtype)
    if k == "ScalarMul":
        c = np.asarray(a["c"]).astype(a["dtype"])  # the scalar as representable in the operator dtype
        M = _wide(c) * np.eye(a["n"])
        return Ref(M, np.abs(M), np.dtype(a["dtype"]))
    if k == "Identity":
        return Ref(np.eye(a["n"]), np.eye(a["n"]), np.dtype(a["dtype"]))
    if k == "Diagonal":
        M = np.diag(_wide(a["d"]))
        return Ref(M, np.abs(M), a["d"].dtype)
    if k == "Tridiagonal":
        n = len(a["beta"])
        M = np.zeros((n, n), dtype=_wide(a["beta"]).dtype)
        for i in range(n):
            M[i, i] = a["beta"][i]
            if i + 1 < n:
                M[i + 1, i] = a["alpha"][i]  # lower band
                M[i, i + 1] = a["gamma"][i]  # upper band
        return Ref(M, np.abs(M), a["beta"].dtype)
    if k == "Permutation":
        p = a["perm"]
        n = len(p)
        M = np.zeros((n, n))
        for i in range(n):
            M[i, p[i]] = 1.0  # (P v)[i] = v[perm[i]]
        return Ref(M, M.copy(), np.dtype(a["dtype"]))
    if k == "Householder":
        v = _wide(a["vec"])
        n = v.shape[0]
        beta = a["beta"]
        M = np.eye(n) - beta * (v @ v.conj().T)
        B = np.eye(n) + abs(beta) * (np.abs(v) @ np.abs(v).T)
        return Ref(M, B, a["vec"].dtype)
    if k == "Kernel":
        M = _wide(P.KERNELS[a["fn"]](_wide(a["x1"]), _wide(a["x2"])))
        return Ref(M, np.abs(M), a["x1"].dtype)
    if k == "FFT":
        n = a["n"]
        jk = np.outer(np.arange(n), np.arange(n))
        M = np.exp(-2j * np.pi * jk / n) / np.sqrt(n)
        return Ref(M, np.abs(M), np.dtype(a["dtype"]))
    if k == "Jacobian":
        M = _wide(a["f"].jac(_wide(a["x"])))
        return Ref(M, np.abs(M), a["x"].dtype)
    if k == "Hessian":
        M = _wide(a["f"].gradfn.jac(_wide(a["x"])))
        return Ref(M, np.abs(M), a["x"].dtype)
    raise ValueError(k)


# ---- truth of annotations -------------------------------------------------------------------
def truth(M, tol=1e-9):
    """Which structural properties the matrix really has (relative tolerance tol)."""
    out = set()
    m, n = M.shape
    sc = max(np.abs(M).max(initial=0.0), 1e-300)
    if m == n and np.abs(M - M.conj().T).max(initial=0.0) <= tol * sc:
        out.add("SelfAdjoint")
        w = np.linalg.eigvalsh((M + M.conj().T) / 2)
        if w.min(initial=0.0) >= -tol * max(np.abs(w).max(initial=0.0), sc) * n:
            out.add("PSD")
    if np.abs(M.conj().T @ M - np.eye(n)).max(initial=0.0) <= tol * max(1.0, sc * sc) * max(m, 1):
        out.add("Stiefel")
        if m == n:
            out.add("Unitary")
    return out


# ---- helpers shared by the monitors -----------------------------------------------------------
def eps_of(dtype):
    dtype = np.dtype(dtype)
    return float(np.finfo(dtype).eps) if dtype.kind in "fc" else 0.0  # (integer results are exact)


def close(got, ref, bound, dtype, c=1000.0, eps=None):
    """|got - ref| <= c*eps*(bound + 0.01*max(bound)) element-wise (forward-error majorant);
    eps = max(eps(dtype), eps) so that a float32 leaf or operand anywhere sets the precision."""
    got = np.asarray(got)
    if got.shape != np.asarray(ref).shape:
        return False, {"why": "shape", "got": list(got.shape), "want": list(np.asarray(ref).shape)}
    if got.size == 0:
        return True, None
    if not np.all(np.isfinite(got)):
        return False, {"why": "non-finite result"}
    bound = np.asarray(bound, dtype=float)
    e = max(eps_of(dtype), eps or 0.0)
    tol = c * e * (bound + 0.01 * bound.max(initial=0.0)) + 1e-300
    err = np.abs(got - ref)
    bad = err > tol
    if bad.any():
        idx = np.unravel_index(np.argmax(err / tol), err.shape)
        return False, {"why": "value", "max_err_over_tol": float((err / tol).max()), "at": [int(i) for i in idx],
                       "got": complex(got[idx]) if np.iscomplexobj(got) else float(got[idx]),
                       "want": complex(np.asarray(ref)[idx]) if np.iscomplexobj(ref) else float(np.asarray(ref)[idx])}
    return True, None


REBUILDABLE = {"Dense", "Diagonal", "Triangular", "Tridiagonal", "Identity", "ScalarMul", "Permutation", "FFT"}


def reseed(node, salt=7919):
    """The same expression over other data: every leaf whose values are array parameters gets another payload seed.  None when
    the tree has a leaf whose values live in static state (a closure: matrix-free, Jacobian, ...), which a
    flatten / unflatten round trip cannot replace."""
    if not isinstance(node, dict):
        return node
    cs = children(node)
    if node["k"] == "NoDispatch":
        return None  # (a matrix-free wrapper around the bound product of its argument: static state)
    if not cs:
        if node["k"] not in REBUILDABLE or "vals" in node or "diag" in node:
            return None
        return dict(node, seed=int(node["seed"]) + salt) if "seed" in node else dict(node)
    out = {}
    for k, v in node.items():
        if k in ("args", "head", "tail"):
            v = [reseed(c, salt) for c in v]
            if any(c is None for c in v):
                return None
        elif k == "arg":
            v = reseed(v, salt)
            if v is None:
                return None
        out[k] = v
    return out


def depth(node):
    cs = children(node)
    return 0 if not cs else 1 + max(depth(c) for c in cs)


def kinds(node, acc=None):
    acc = [] if acc is None else acc
    acc.append(node["k"])
    for c in children(node):
        kinds(c, acc)
    return acc


def shape_of(node):
    """Shape computed structurally (no payloads)."""
    k = node["k"]
    if k in ("Dense", "Generic", "Sparse", "Jacobian"):
        return tuple(node["shape"])
    if k in ("Triangular", "ScalarMul", "Identity", "Diagonal", "Tridiagonal", "Householder", "FFT", "Hessian"):
        return (node["n"], node["n"])
    if k == "Permutation":
        return (len(node["perm"]), ) * 2
    if k == "Kernel":
        return (node["n1"], node["n2"])
    if k in ("Transpose", "Adjoint"):
        s = shape_of(node["arg"])
        return (s[1], s[0])
    if k in ("NoDispatch", "Annot", "Scaled", "Symm"):
        return shape_of(node["arg"])
    if k == "Routine":
        s = shape_of(node["arg"])
        return (s[1], s[0]) if node["fn"] == "pinv" else s
    if k == "Gram":
        s = shape_of(node["arg"])
        s = (s[1], s[1]) if node["form"] in ("TA", "HA") else (s[0], s[0])
        if node.get("head"):
            s = (shape_of(node["head"][0])[0], s[1])
        if node.get("tail"):
            s = (s[0], shape_of(node["tail"][-1])[1])
        return s
    if k == "Sliced":
        s = shape_of(node["arg"])
        r = np.arange(s[0])[to_index(node["slices"][0], s[0])]
        c = np.arange(s[1])[to_index(node["slices"][1], s[1])]
        return (len(r), len(c))
    ss = [shape_of(c) for c in node["args"]]
    if k == "Product":
        return (ss[0][0], ss[-1][1])
    if k == "Sum":
        return ss[0]
    if k in ("Kronecker", "KronSum"):
        return (int(np.prod([s[0] for s in ss])), int(np.prod([s[1] for s in ss])))
    if k == "BlockDiag":
        mult = node.get("mult") or [1] * len(ss)
        return (sum(s[0] * c for s, c in zip(ss, mult)), sum(s[1] * c for s, c in zip(ss, mult)))
    if k == "Concatenated":
        ax = node["axis"]
        if ax == 0:
            return (sum(s[0] for s in ss), ss[0][1])
        return (ss[0][0], sum(s[1] for s in ss))
    raise ValueError(k)


def signature(node):
    """Canonical structure string: kinds + shapes + dtypes (+ flags), no payload seeds."""
    k = node["k"]
    flags = ""
    for f in ("dt", "via", "axis", "mult", "lower", "sorted", "dups", "name", "gen", "fn", "bs1", "bs2", "form", "same", "alg"):
        if f in node:
            flags += f"{f}={node[f]};"
    if k == "Scaled":
        c = P.as_scalar(node["c"])
        flags += "c=" + ("complex" if isinstance(c, complex) else ("neg" if c < 0 else ("unit" if abs(c) == 1 else "pos"))) + ";"
    if k == "Sliced":
        flags += "sl=" + "/".join("s" if "s" in s else "i" for s in node["slices"]) + ";"
    cs = children(node)
    try:
        shp = shape_of(node)
    except Exception:  # noqa
        shp = "?"
    return f"{k}[{shp};{flags}](" + ",".join(signature(c) for c in cs) + ")"
