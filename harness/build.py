"""spec -> real cola operator through the *public* constructors / overloads (system under observation)."""
import numpy as np

import cola
from cola import ops
from harness import payload as P
from harness.refmodel import to_index

ANNOT = {"SelfAdjoint": cola.SelfAdjoint, "PSD": cola.PSD, "Unitary": cola.Unitary, "Stiefel": cola.Stiefel}


CTX = None  # the running shard's Ctx (set by harness/shard.py): every array handed to cola is guarded by its write sanitizer


def build(node, owned=None):
    """Build the operator.  ``owned`` (optional list) collects every caller-owned array handed to cola.  With CTX set, the
    arrays are also registered with the write sanitizer (whatever the monitor calls next must leave their bytes alone)."""
    lst = [] if owned is None else owned
    start = len(lst)
    op = _build(node, lst)
    if CTX is not None and getattr(CTX, "auto_guard", True):
        CTX.guard(*lst[start:])
    return op


def rebuilt(node, prime=None):
    """An operator obtained the way training loops obtain theirs: build the expression over some data, use it (``prime``),
    flatten it, and rebuild it from the array parameters of the same expression over *other* data.  -> (operator, spec of
    the data it now holds), or None when the expression cannot be rebuilt that way."""
    from harness.refmodel import reseed
    node2 = reseed(node)
    if node2 is None:
        return None
    S_ = build(node)
    before, _ = S_.flatten()
    if prime is not None:
        prime(S_)
    T_ = build(node2)
    ps, unflatten = S_.flatten()
    pt, _ = T_.flatten()
    if len(before) != len(pt) or any(np.shape(a) != np.shape(b) or np.asarray(a).dtype != np.asarray(b).dtype for a, b in zip(before, pt)):
        return None
    # every array parameter the operator had before it was used gets the other data; whatever else the flattened operator lists
    # after the use (nothing, for an operator that is a value) gets other data too, as a caller's tree_map would give it
    if len(ps) == len(before):
        return unflatten(list(pt)), node2  # (the usual case: the used operator lists the same parameters as before)
    new = []
    for a in ps:
        j = next((i for i, b in enumerate(before) if a is b), None)
        if j is None and not any(isinstance(b, np.ndarray) and b.shape == np.shape(a) and np.array_equal(b, a) for b in before):
            new.append(a * 2 if isinstance(a, np.ndarray) and a.dtype.kind in "fc" else a)
        else:
            j = j if j is not None else next(i for i, b in enumerate(before) if isinstance(b, np.ndarray) and b.shape == np.shape(a) and np.array_equal(b, a))
            new.append(pt[j])
    return unflatten(new), node2


def layout(A, node):
    """Memory layout of a caller-owned matrix, decided by the leaf's seed: mostly row-major, sometimes column-major, sometimes
    a non-contiguous view of a larger buffer (the values are the same)."""
    r = int(node.get("seed", 0)) % 7
    if A.ndim != 2 or A.size == 0 or node.get("layout") == "C":
        return A
    if r == 3:
        return np.asfortranarray(A)
    if r == 5:
        big = np.zeros((2 * A.shape[0], 2 * A.shape[1]), dtype=A.dtype)
        big[::2, ::2] = A
        return big[::2, ::2]
    return A


def _build(node, owned=None):
    k = node["k"]
    via = node.get("via", "ctor")

    def own(x):
        if owned is not None and isinstance(x, np.ndarray):
            owned.append(x)
        return x

    if k == "Dense":
        A = P.arrays(node)["A"]
        if node.get("int_dtype"):  # integer-valued payload handed over in an integer dtype (as in the library's docstrings)
            A = A.astype(np.int64)
        A = own(layout(A, node))
        return cola.lazify(A) if via == "fn" else ops.Dense(A)
    if k == "Generic":
        A = own(P.arrays(node)["A"])
        if node.get("gen") == "flip":  # the product is a view of the operand
            # (a view for an operand of the operator's own dtype; an operand of another dtype is promoted as a stored matrix would)
            return ops.LinearOperator(A.dtype, A.shape, matmat=lambda X, dt=A.dtype: X[::-1] if X.dtype == dt else X[::-1].astype(np.result_type(X.dtype, dt)))
        # (user-defined operators may spell the dtype as NumPy's scalar type, as cola's own docstrings do: np.complex128, not
        # np.dtype('complex128'))
        return ops.LinearOperator(A.dtype.type if int(node.get("seed", 0)) % 3 == 0 else A.dtype, A.shape, matmat=lambda X, A=A: A @ X)
    if k == "Triangular":
        a = P.arrays(node)
        return ops.Triangular(own(a["A"]), lower=a["lower"])
    if k == "Sparse":
        a = P.arrays(node)
        return ops.Sparse(own(a["data"]), own(a["rows"]), own(a["cols"]), shape=a["shape"])
    if k == "ScalarMul":
        a = P.arrays(node)
        return ops.ScalarMul(a["c"], (a["n"], a["n"]), dtype=a["dtype"])
    if k == "Identity":
        a = P.arrays(node)
        return ops.Identity((a["n"], a["n"]), a["dtype"])
    if k == "Diagonal":
        return ops.Diagonal(own(P.arrays(node)["d"]))
    if k == "Tridiagonal":
        a = P.arrays(node)
        return ops.Tridiagonal(own(a["alpha"]), own(a["beta"]), own(a["gamma"]))
    if k == "Permutation":
        a = P.arrays(node)
        return ops.Permutation(own(a["perm"]), a["dtype"])
    if k == "Householder":
        a = P.arrays(node)
        return ops.Householder(own(a["vec"]), beta=a["beta"])
    if k == "Kernel":
        a = P.arrays(node)
        return ops.Kernel(own(a["x1"]), own(a["x2"]), P.KERNELS[a["fn"]], a["bs1"], a["bs2"])
    if k == "FFT":
        a = P.arrays(node)
        return ops.FFT(a["n"], a["dtype"])
    if k == "Jacobian":
        a = P.arrays(node)
        return ops.Jacobian(a["f"], own(a["x"]))
    if k == "Hessian":
        a = P.arrays(node)
        return ops.Hessian(a["f"], own(a["x"]))
    if k == "Transpose":
        A = _build(node["arg"], owned)
        return A.T if via == "fn" else ops.Transpose(A)
    if k == "Adjoint":
        A = _build(node["arg"], owned)
        return A.H if via == "fn" else ops.Adjoint(A)
    if k == "NoDispatch":
        return cola.no_dispatch(_build(node["arg"], owned))
    if k == "Annot":
        return ANNOT[node["name"]](_build(node["arg"], owned))
    if k == "Scaled":
        A = _build(node["arg"], owned)
        c = P.as_scalar(node["c"])
        return c * A if node.get("side", "l") == "l" else A * c
    if k == "Symm":
        A = _build(node["arg"], owned)
        V = {("T", "ctor"): lambda: ops.Transpose(A), ("T", "fn"): lambda: A.T, ("H", "ctor"): lambda: ops.Adjoint(A),
             ("H", "fn"): lambda: A.H}[(node["form"], node.get("view", "ctor"))]()
        pair = (A, V) if node.get("order", 0) == 0 else (V, A)
        return ops.Sum(*pair) if via == "ctor" else pair[0] + pair[1]
    if k == "Gram":
        A = _build(node["arg"], owned)
        A2 = A if node.get("same", True) else _build(node.get("other", node["arg"]), owned)  # merely equal (or other data), not identical
        f = node["form"]
        pair = {"TA": lambda: (A.T, A2), "HA": lambda: (A.H, A2), "AT": lambda: (A, A2.T)}.get(f, lambda: (A, A2.H))()
        # optional further factors before/after the pair (a product that merely *contains* a Gram pair)
        Ms = [_build(c, owned) for c in node.get("head", [])] + list(pair) + [_build(c, owned) for c in node.get("tail", [])]
        if node.get("via", "fn") == "ctor" and len(Ms) > 2:
            return ops.Product(*Ms)
        if node.get("assoc") == "pair-first" and len(Ms) > 2:  # (A^H A) @ B, H @ (A^H A)
            out = pair[0] @ pair[1]
            for M in reversed([_build(c, owned) for c in node.get("head", [])]):
                out = M @ out
            for M in [_build(c, owned) for c in node.get("tail", [])]:
                out = out @ M
            return out
        out = Ms[0]
        for M in Ms[1:]:
            out = out @ M
        return out
    if k == "Routine":
        return _routine(node, _build(node["arg"], owned))
    if k == "Sliced":
        A = _build(node["arg"], owned)
        s0 = to_index(node["slices"][0], A.shape[0])
        s1 = to_index(node["slices"][1], A.shape[1])
        s0, s1 = own(s0), own(s1)
        return A[s0, s1] if via == "fn" else ops.Sliced(A, (s0, s1))
    if node.get("share"):
        # identical part specs are built once: the very same operator object appears several times (A @ A, A @ B @ A, A + A)
        import json
        cache = {}
        Ms = []
        for c in node["args"]:
            key = json.dumps(c, sort_keys=True)
            if key not in cache:
                cache[key] = _build(c, owned)
            Ms.append(cache[key])
    else:
        Ms = [_build(c, owned) for c in node["args"]]
    if k == "Product":
        if via == "fn":
            out = Ms[0]
            for M in Ms[1:]:
                out = out @ M
            return out
        return ops.Product(*Ms)
    if k == "Sum":
        if via == "fn":
            out = Ms[0]
            for M in Ms[1:]:
                out = out + M
            return out
        return ops.Sum(*Ms)
    if k in ("Kronecker", "KronSum"):
        f = cola.kron if k == "Kronecker" else cola.kronsum
        if via == "fn":  # left-nested: ((A x B) x C)
            out = Ms[0]
            for M in Ms[1:]:
                out = f(out, M)
            return out
        if via == "fn-right":  # right-nested: (A x (B x C))
            out = Ms[-1]
            for M in reversed(Ms[:-1]):
                out = f(M, out)
            return out
        return ops.Kronecker(*Ms) if k == "Kronecker" else ops.KronSum(*Ms)
    if k == "BlockDiag":
        mult = node.get("mult")
        if via == "fn" and mult is None:
            return cola.block_diag(*Ms)
        return ops.BlockDiag(*Ms, multiplicities=mult)
    if k == "Concatenated":
        return ops.Concatenated(*Ms, axis=node["axis"])
    raise ValueError(f"unknown kind {k}")


def _routine(node, A):
    """The object a public cola routine returns for the operator A (to be used as an operand of further algebra)."""
    from cola.linalg import CG, GMRES, LU, Arnoldi, Auto, Cholesky, Lanczos
    from cola.linalg.inverse.pinv import LSTSQ
    from cola.linalg.unary.unary import Eig, Eigh
    from cola.linalg.decompositions.decompositions import cholesky, plu
    from cola.linalg.svd.svd import svd
    fn, an = node["fn"], node.get("alg")
    n = max(A.shape)
    alg = {None: None, "Auto": Auto(), "LU": LU(), "Cholesky": Cholesky(), "CG": CG(tol=1e-13, max_iters=50 * n + 50),
           "GMRES": GMRES(tol=1e-13, max_iters=n), "LSTSQ": LSTSQ(), "Eig": Eig(), "Eigh": Eigh(),
           "Lanczos": Lanczos(max_iters=n + 2, tol=1e-13), "Arnoldi": Arnoldi(max_iters=n + 2, tol=1e-13)}[an]
    args = () if alg is None else (alg, )
    if fn == "inv":
        return cola.linalg.inv(A, *args)
    if fn == "pinv":
        return cola.linalg.pinv(A, *args)
    if fn == "cholL":
        return cholesky(A)
    if fn == "pluprod":
        Pm, L, U = plu(A)
        return Pm @ L @ U
    if fn == "svdprod":
        U, S_, V = svd(A, min(A.shape), "LM", *args)
        return U @ S_ @ V.H
    if fn in ("exp", "log", "sqrt", "isqrt"):
        return getattr(cola.linalg, fn)(A, *args)
    if fn.startswith("pow"):
        a = {"pow2": 2, "pow-1": -1, "pow0.5": 0.5, "pow3": 3}[fn]
        return cola.linalg.pow(A, a, *args)
    raise ValueError(fn)
