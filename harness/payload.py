"""Deterministic leaf payloads (pure data; used by both interpretations of a spec).

A leaf node is a JSON-able dict; ``arrays(node)`` turns it into the NumPy arrays that (a) the
reference interpreter assembles into a matrix with its own code and (b) the builder hands to the
public cola constructors.  Nothing here imports cola.
"""
import hashlib

import numpy as np

DT = {"f4": np.float32, "f8": np.float64, "c8": np.complex64, "c16": np.complex128}
DT_INV = {np.dtype(v): k for k, v in DT.items()}
CPLX = {"c8", "c16"}


def code_of(dtype):
    return DT_INV[np.dtype(dtype)]


def rng_for(*key):
    h = hashlib.sha256(repr(key).encode()).digest()
    return np.random.Generator(np.random.PCG64(int.from_bytes(h[:8], "big")))


def ints(rng, shape, dt, lo=-3, hi=3, nonzero=False):
    a = rng.integers(lo, hi + 1, size=shape).astype(np.float64)
    if nonzero:
        a[a == 0] = 1.0
    if dt in CPLX:
        b = rng.integers(lo, hi + 1, size=shape).astype(np.float64)
        a = a + 1j * b
    return a.astype(DT[dt])


def haar(rng, n, cplx):
    Z = rng.standard_normal((n, n))
    if cplx:
        Z = Z + 1j * rng.standard_normal((n, n))
    Q, R = np.linalg.qr(Z)
    d = np.diag(R)
    return Q * (d / np.abs(d))


def as_scalar(c):
    """JSON scalar -> python number."""
    if isinstance(c, dict):
        return complex(c["re"], c["im"])
    return c


def dense_payload(node):
    """Dense/Generic payload of shape node['shape'] by node['gen'] (default small integers); node['unit'] expresses the
    entries in another unit (tiny / huge entries that are still inside the dtype's range)."""
    if "unit" in node:
        a = dense_payload({k: v for k, v in node.items() if k != "unit"})
        return (a * node["unit"]).astype(a.dtype)
    m, n = node["shape"]
    dt = node["dt"]
    g = node.get("gen", "int")
    rng = rng_for("dense", node["seed"], m, n, dt, g)
    cplx = dt in CPLX
    if g == "int":
        return ints(rng, (m, n), dt)
    if g == "normal":
        a = rng.standard_normal((m, n))
        if cplx:
            a = a + 1j * rng.standard_normal((m, n))
        return a.astype(DT[dt])
    if g == "herm":  # Hermitian / symmetric with given real eigenvalues (or small-integer Hermitian)
        if "eigs" in node:
            Q = haar(rng, n, cplx)
            a = (Q * np.asarray(node["eigs"], dtype=float)) @ Q.conj().T
            a = (a + a.conj().T) / 2
            return a.astype(DT[dt])
        a = ints(rng, (n, n), dt).astype(np.complex128 if cplx else np.float64)
        a = np.tril(a) + np.tril(a, -1).conj().T
        if cplx:
            a[np.diag_indices(n)] = a[np.diag_indices(n)].real
        return a.astype(DT[dt])
    if g == "flip":  # the exchange matrix (a matrix-free operator can apply it as a *view* of its operand: X[::-1])
        return np.eye(n)[::-1].copy().astype(DT[dt])
    if g == "intdom":  # small integers, strictly diagonally dominant (invertible, exactly representable in an integer dtype)
        a = ints(rng, (n, n), dt, -2, 2).astype(np.complex128 if cplx else np.float64)
        a[np.arange(n), np.arange(n)] = 0
        d = (np.abs(a.real).sum(1) + np.abs(a.imag).sum(1) + 1) * rng.choice([-1.0, 1.0], size=n)
        return (a + np.diag(d)).astype(DT[dt])
    if g == "psd_int":  # B^H B + I with small-integer B  (exact, positive definite)
        b = ints(rng, (n, n), dt, -2, 2).astype(np.complex128 if cplx else np.float64)
        a = b.conj().T @ b + np.eye(n)
        return a.astype(DT[dt])
    if g == "orth":  # Haar unitary (m == n) or Stiefel (m > n: orthonormal columns)
        Q = haar(rng, max(m, n), cplx)
        return Q[:m, :n].astype(DT[dt])
    if g == "general":  # V diag(eigs) V^-1 with well-conditioned V  (cond(V) <= ~ node['vcond'])
        lam = np.array([as_scalar(e) for e in node["eigs"]])
        vc = float(node.get("vcond", 3.0))
        U, W = haar(rng, n, cplx), haar(rng, n, cplx)
        sv = np.linspace(1.0, vc, n)
        V = (U * sv) @ W.conj().T
        if not cplx:
            # real matrix: conjugate pairs must be adjacent in eigs; build real block form
            a = np.zeros((n, n))
            i = 0
            while i < n:
                if abs(lam[i].imag) > 0:
                    a[i, i] = a[i + 1, i + 1] = lam[i].real
                    a[i, i + 1] = lam[i].imag
                    a[i + 1, i] = -lam[i].imag
                    i += 2
                else:
                    a[i, i] = lam[i].real
                    i += 1
            out = V @ a @ np.linalg.inv(V)
            return out.real.astype(DT[dt])
        out = (V * lam) @ np.linalg.inv(V)
        return out.astype(DT[dt])
    if g == "zeros":  # given eigenvalues and an *exact* zero pattern (eigenvectors with exactly zero coordinates)
        lam = np.array([as_scalar(e) for e in node["eigs"]])
        pat = node["pattern"]
        wdt = np.complex128 if cplx else np.float64
        if pat in ("lower", "upper"):
            a = 0.3 * rng.standard_normal((n, n)) + (0.3j * rng.standard_normal((n, n)) if cplx else 0)
            a = (np.tril(a, -1) if pat == "lower" else np.triu(a, 1)).astype(wdt)
            a[np.diag_indices(n)] = lam if cplx else lam.real
            return a.astype(DT[dt])
        # "absorbing": the first row is a multiple of e_1 (every eigenvector but one has first coordinate exactly 0)
        a = np.zeros((n, n), dtype=wdt)
        a[0, 0] = lam[0] if cplx else lam[0].real
        if n > 1:
            sub = dict(node, shape=[n - 1, n - 1], gen="general", eigs=node["eigs"][1:])
            a[1:, 1:] = dense_payload(sub)
            a[1:, 0] = 0.3 * rng.standard_normal(n - 1)
        return a.astype(DT[dt])
    if g == "svals":  # U diag(s) V^H with given singular values
        s = np.asarray(node["svals"], dtype=float)
        U = haar(rng, m, cplx)[:, :len(s)]
        V = haar(rng, n, cplx)[:, :len(s)]
        return ((U * s) @ V.conj().T).astype(DT[dt])
    raise ValueError(g)


class JacFn:
    """f(x) = W sin(x); analytic Jacobian W diag(cos x)."""
    def __init__(self, W):
        self.W = W

    def __call__(self, x):
        return self.W @ np.sin(x)

    def jac(self, x):
        return self.W * np.cos(x)[None, :]


class GradFn:
    def __init__(self, S):
        self.S = S

    def __call__(self, x):
        return self.S @ x + np.cos(x)

    def jac(self, x):
        return self.S - np.diag(np.sin(x))


class HessFn:
    """g(x) = x^T S x / 2 + sum(sin x), S symmetric; Hessian S - diag(sin x)."""
    def __init__(self, S):
        self.S = S
        self.gradfn = GradFn(S)

    def __call__(self, x):
        return 0.5 * x @ self.S @ x + np.sin(x).sum()


KERNELS = {
    "lin": lambda a, b: a @ b.T,
    "rbf": lambda a, b: np.exp(-0.5 * ((a[:, None, :] - b[None, :, :])**2).sum(-1)),
    "poly": lambda a, b: (1.0 + a @ b.T)**2,
}


def arrays(node):
    """Leaf node -> dict of arrays / scalars handed to the constructors."""
    k = node["k"]
    dt = node.get("dt", "f8")
    if k in ("Dense", "Generic"):
        return {"A": dense_payload(node)}
    if k == "Triangular":
        n = node["n"]
        rng = rng_for("tri", node["seed"], n, dt)
        if "diag" in node:
            a = ints(rng, (n, n), dt, -1, 1).astype(np.complex128) * 0.5
            a[np.diag_indices(n)] = np.array([as_scalar(e) for e in node["diag"]])
            a = a.astype(DT[dt]) if dt in CPLX else a.real.astype(DT[dt])
        else:
            a = ints(rng, (n, n), dt)
            if node.get("nonsing"):
                d = ints(rng, (n, ), dt, 1, 3)
                a[np.diag_indices(n)] = d
        a = np.tril(a) if node["lower"] else np.triu(a)
        return {"A": np.ascontiguousarray(a), "lower": bool(node["lower"])}
    if k == "Sparse":
        m, n = node["shape"]
        rng = rng_for("sparse", node["seed"], m, n, dt)
        nnz = node["nnz"]
        rows = rng.integers(0, m, size=nnz)
        cols = rng.integers(0, n, size=nnz)
        if not node.get("dups", False):
            lin = np.unique(rows * n + cols)
            rng.shuffle(lin)
            rows, cols = lin // n, lin % n
        if node.get("sorted", True):
            order = np.lexsort((cols, rows))
            rows, cols = rows[order], cols[order]
        data = ints(rng, (len(rows), ), dt, nonzero=True)
        return {"data": data, "rows": rows.astype(np.int64), "cols": cols.astype(np.int64), "shape": (m, n)}
    if k == "ScalarMul":
        return {"c": as_scalar(node["c"]), "n": node["n"], "dtype": DT[dt]}
    if k == "Identity":
        return {"n": node["n"], "dtype": DT[dt]}
    if k == "Diagonal":
        n = node["n"]
        if "vals" in node:
            d = np.array([as_scalar(e) for e in node["vals"]])
            d = d.astype(DT[dt]) if dt in CPLX else d.real.astype(DT[dt])
        else:
            rng = rng_for("diag", node["seed"], n, dt)
            d = ints(rng, (n, ), dt, nonzero=bool(node.get("nonzero")))
        return {"d": d}
    if k == "Tridiagonal":
        n = node["n"]
        rng = rng_for("tridiag", node["seed"], n, dt)
        if node.get("dominant"):  # strictly diagonally dominant (cond <= 3); "sym": Hermitian positive definite
            al = ints(rng, (max(n - 1, 0), ), dt, -1, 1)
            ga = al.conj() if node.get("sym") else ints(rng, (max(n - 1, 0), ), dt, -1, 1)
            be = (4 * np.ones(n)).astype(DT[dt])
            return {"alpha": al, "beta": be, "gamma": ga}
        return {"alpha": ints(rng, (max(n - 1, 0), ), dt), "beta": ints(rng, (n, ), dt),
                "gamma": ints(rng, (max(n - 1, 0), ), dt)}
    if k == "Permutation":
        return {"perm": np.asarray(node["perm"], dtype=np.int64), "dtype": DT[dt]}
    if k == "Householder":
        n = node["n"]
        rng = rng_for("hh", node["seed"], n, dt)
        v = ints(rng, (n, 1), dt)
        if node.get("unit"):
            v[0, 0] = 1
            v = (v / np.linalg.norm(v)).astype(DT[dt])
            return {"vec": v, "beta": as_scalar(node.get("beta", 2.0))}  # (a complex beta with |1 - beta| = 1: unitary, not Hermitian)
        return {"vec": v, "beta": as_scalar(node.get("beta", 2.0))}
    if k == "Kernel":
        n1, n2, d = node["n1"], node["n2"], node.get("d", 2)
        rng = rng_for("kernel", node["seed"], n1, n2, d, dt)
        x1 = ints(rng, (n1, d), dt if dt not in CPLX else "f8", -2, 2) / 2
        x2 = ints(rng, (n2, d), dt if dt not in CPLX else "f8", -2, 2) / 2
        return {"x1": x1.astype(DT[dt]), "x2": x2.astype(DT[dt]), "fn": node["fn"], "bs1": node["bs1"],
                "bs2": node["bs2"]}
    if k == "FFT":
        return {"n": node["n"], "dtype": DT[dt]}
    if k == "Jacobian":
        m, n = node["shape"]
        rng = rng_for("jac", node["seed"], m, n, dt)
        W = ints(rng, (m, n), dt)
        x = (ints(rng, (n, ), dt, -2, 2) / 2).astype(DT[dt])
        return {"f": JacFn(W), "x": x}
    if k == "Hessian":
        n = node["n"]
        rng = rng_for("hess", node["seed"], n, dt)
        S = ints(rng, (n, n), dt)
        S = (np.tril(S) + np.tril(S, -1).T).astype(DT[dt])
        x = (ints(rng, (n, ), dt, -2, 2) / 2).astype(DT[dt])
        return {"f": HessFn(S), "x": x}
    raise ValueError(f"unknown leaf kind {k}")


def operand(seed, shape, dt, gen="int"):
    rng = rng_for("operand", seed, tuple(shape), dt, gen)
    if gen == "int":
        return ints(rng, tuple(shape), dt)
    a = rng.standard_normal(tuple(shape))
    if dt in CPLX:
        a = a + 1j * rng.standard_normal(tuple(shape))
    return a.astype(DT[dt])


def count_form(v, seed):
    """An iteration count / size argument spelled as callers legitimately spell it: mostly a Python int, sometimes the NumPy
    integer that np.arange, np.minimum, .shape arithmetic or len-of-array code hands around (np.int64, np.int32, np.intp)."""
    if v is None:
        return None
    r = int(seed) % 5
    return {3: np.int64, 4: np.int32}.get(r, int)(v)
