"""Loop-state tap (DESIGN 3.4): records every state of cola's instrumented while loops without editing them.

``np_fns.while_loop_winfo`` is looked up through ``xnp.`` at call time, so replacing the module attribute is enough.
A hard cap on the number of observed states turns a runaway loop into a *logical* verdict (exceeds the iteration
cap) instead of a wall-clock timeout.
"""


class LoopCapExceeded(RuntimeError):
    pass


class LoopTap:
    def __init__(self):
        self.installed = False
        self.records = []  # one dict per while loop: {"body": name, "states": [...], "info": info}
        self.on = False
        self.hard_cap = None
        self.keep = None  # optional function state -> what to store

    def install(self):
        if self.installed:
            return self
        from cola.backends import np_fns
        tap = self
        orig = np_fns.while_loop_winfo

        def while_loop_winfo(errorfn, tol, max_iters=None, **kw):
            while_fn, info = orig(errorfn, tol, max_iters, **kw)
            if not tap.on:
                return while_fn, info

            def tapped(cond_fun, body_fun, init_val):
                rec = {"body": getattr(body_fun, "__name__", "?"), "states": [], "info": info, "max_iters": max_iters}
                tap.records.append(rec)

                def cond(state):
                    rec["states"].append(tap.keep(state) if tap.keep else state)
                    if tap.hard_cap is not None and len(rec["states"]) > tap.hard_cap:
                        raise LoopCapExceeded(f"{rec['body']}: more than {tap.hard_cap} loop states")
                    return cond_fun(state)

                return while_fn(cond, body_fun, init_val)

            return tapped, info

        np_fns.while_loop_winfo = while_loop_winfo
        self.installed = True
        return self

    def start(self, hard_cap=None, keep=None):
        self.records = []
        self.on = True
        self.hard_cap = hard_cap
        self.keep = keep

    def stop(self):
        self.on = False
        return self.records


LOOPS = LoopTap()
