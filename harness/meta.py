"""Static description of every check (read by the parent without importing cola)."""
from types import SimpleNamespace as NS

COMMON_ASSUMPTIONS = [
    "NumPy/SciPy/BLAS/optree and the vendored plum fork are trusted (not under observation)",
    "only the NumPy backend is installed; backend functions it lacks (vmap, linear_transpose, sparse_csr, to_np, "
    "jvp/vjp/grad emulation) come from the harness shim (harness/shim.py), which is self-tested by bin/setup",
    "the reference interpreter (harness/refmodel.py) shares no code with cola and is trusted",
    "held = held on the executions observed in this run, not verified",
]


def M(shards, budget, floors, required, rule, assumptions=(), exhaustive=False):
    return NS(SHARDS=shards, BUDGET_S=budget, FLOORS=floors, REQUIRED_ORACLES=list(required), RULE=rule,
              ASSUMPTIONS=COMMON_ASSUMPTIONS + list(assumptions), EXHAUSTIVE=exhaustive)


META = {}

META["C01"] = M(
    shards={"quick": 16, "thorough": 64}, budget={"quick": 120, "thorough": 1200},
    floors={"quick": {"evals": 8000, "distinct": 800}, "thorough": {"evals": 400000, "distinct": 40000}},
    required=["matvec", "matmat", "to_dense", "generic-dense", "product-dtype", "op-dtype", "shape"],
    rule="random operator-expression trees (depth 0-4) over all operator kinds and over results of cola routines used as operands "
         "(lazy inverses, pseudo-inverses, matrix functions, Cholesky factors, plu / svd factor products), shared operator objects in "
         "non-adjacent positions, leaf dtypes f4/f8/c8/c16 (uniform or mixed), "
         "shapes incl. 1xN/Nx1/wide, each judged against the independent reference interpreter on A@x, A@X, to_dense, densify, "
         "the generic densification path, shape, operator dtype and result dtypes; distinct = distinct canonical structure "
         "(kinds, shapes, dtypes, flags, construction route) + operand dtype/rank; non-trivial = nesting depth >= 1 or an "
         "operand dtype different from the operator's")

META["C02"] = M(
    shards={"quick": 16, "thorough": 64}, budget={"quick": 120, "thorough": 1200},
    floors={"quick": {"evals": 20000, "distinct": 800}, "thorough": {"evals": 1500000, "distinct": 40000}},
    required=["tower-dense", "tower-right", "tower-left-vec", "tower-left-mat", "left-product", "involution"],
    rule="random operator-expression trees (as C01, incl. results of cola routines over structured arguments) plus truly self-adjoint / PSD / unitary leaves declared as such (real and "
         "complex Hermitian) and composites of them; every tower of .T/.H up to depth 3 (all 14 in thorough, 5 sampled in quick) "
         "judged through to_dense, right product and left products (1-D and 2-D) against the reference; A.T.T / A.H.H judged for "
         "matrix, shape, dtype and annotations; distinct = canonical structure + towers + operand dtype")

META["C03"] = M(
    shards={"quick": 16, "thorough": 64}, budget={"quick": 120, "thorough": 1200},
    floors={"quick": {"evals": 8000, "distinct": 1500}, "thorough": {"evals": 600000, "distinct": 60000}},
    required=["value", "dtype", "shape", "result-kind", "product", "evaluates", "mismatch-rejected"],
    rule="random algebraic expressions (depth 1-5) over {+,-,neg,c*,*c,/c,c/,@,kron,kronsum,block_diag,sum(),lazify,densify,"
         "no_dispatch} applied to generated operator trees and plain arrays, scalars of type int/float/complex/numpy scalar/0-d "
         "array incl. zero and negative; evaluated with cola's public API and, independently, on dense matrices; plus shape-"
         "mismatched operand pairs that must raise; distinct = canonical expression structure (ops, kinds, shapes, dtypes, scalar types)")

META["C04"] = M(
    shards={"quick": 16, "thorough": 32}, budget={"quick": 400, "thorough": 1500},
    floors={"quick": {"evals": 30000, "distinct": 30000}, "thorough": {"evals": 150000, "distinct": 150000}},
    required=["lookup"],
    rule="complete enumeration of the lattice (function x operator kind or ordered pair of kinds x declared annotation in "
         "{none, SelfAdjoint, PSD, Stiefel, Unitary} x admitted algorithm class x omitted/explicit optional arguments x real/"
         "complex, square and tall instances; plus, per kind, one operator object combined with a lazy or eager view of itself), each tuple executed on tiny instances with the dispatch tap armed, in two registry "
         "configurations (plain import; after importing the optional modules that register into the same name registry); "
         "distinct = distinct tuples; every tuple is non-trivial",
    exhaustive=True)

META["C05"] = M(
    shards={"quick": 16, "thorough": 64}, budget={"quick": 120, "thorough": 1200},
    floors={"quick": {"evals": 6000, "distinct": 1500}, "thorough": {"evals": 300000, "distinct": 50000}},
    required=["annotation-true", "routine-output-annotation-true", "created-operator-annotation-true",
              "wrapper-same-action", "wrapper-leaves-argument-alone", "isa-consistent"],
    rule="expression trees whose leaves carry true declarations (truly Hermitian / PSD / unitary / orthonormal-column matrices "
         "declared so, real and complex) through scalar multiples (negative, complex, non-unit), sums, products incl. A^T A / "
         "A^H A / A A^T patterns with identical and merely equal factors, Kronecker, block-diagonal, slices with equal/unequal "
         "index sets, transposes, adjoints; operators returned by lanczos, arnoldi, eig (all paths), svd, matrix functions, inv "
         "of unitary; plus every operator constructed on the way (creation tap) densified by cola itself; each reported "
         "annotation tested on the matrix (symmetry, eigenvalue sign, orthonormality); distinct = canonical structure")

META["C06"] = M(
    shards={"quick": 16, "thorough": 64}, budget={"quick": 120, "thorough": 1200},
    floors={"quick": {"evals": 4000, "distinct": 600}, "thorough": {"evals": 200000, "distinct": 30000}},
    required=["inv-product", "solve", "inv-dense", "inv-transpose", "inv-left-product", "auto-switch-solve", "solve-uses-the-requested-algorithm"],
    rule="well-conditioned (cond <= 300, by construction and re-checked on the reference) invertible operator trees over every kind "
         "with an inverse rule and their nestings, with/without PSD/Unitary declarations, real/complex/single/double, right-hand "
         "sides 1-D and multi-column, algorithm omitted/Auto/LU/Cholesky/CG/GMRES with tolerances 1e-3..1e-10; x = inv(A,alg)@b, "
         "solve(A,b,alg), inv(A).to_dense(), and on direct paths inv(A).T/.H and b@inv(A) compared with the dense reference under "
         "the path's own error bound; plus both sides of the 10^6-entry Auto switch (n=999, 1001); distinct = structure+alg+rhs")

META["C07"] = M(
    shards={"quick": 16, "thorough": 64}, budget={"quick": 120, "thorough": 1200},
    floors={"quick": {"evals": 8000, "distinct": 800}, "thorough": {"evals": 300000, "distinct": 30000}},
    required=["logabs", "sign", "sign-unit-modulus", "det-reconstructed", "logdet", "sign-real-pm1"],
    rule="non-singular well-conditioned operator trees (products of square factors, Kronecker with unequal factor sizes, BlockDiag "
         "with multiplicities, Diagonal/Triangular with negative and complex entries, ScalarMul of every size n with negative/"
         "complex scalar, Identity, permutations of both parities, dense general and PSD), scaled so that |det| lies on both sides "
         "of 1, x every (log_alg, trace_alg) pair with a deterministic trace (omitted, Auto, Cholesky, LU, Lanczos/Arnoldi with "
         "max_iters >= n and exact trace); slogdet/logdet compared with numpy.linalg.slogdet of the reference matrix; "
         "distinct = structure + algorithm pair")

META["C08"] = M(
    shards={"quick": 16, "thorough": 64}, budget={"quick": 120, "thorough": 1200},
    floors={"quick": {"evals": 4000, "distinct": 1500}, "thorough": {"evals": 150000, "distinct": 50000}},
    required=["diag", "trace", "structural-vs-generic", "default-stays-exact"],
    rule="square operator trees over Dense, Identity, Diagonal, ScalarMul, Sum, BlockDiag with multiplicities, Kronecker/KronSum, "
         "products, Tridiagonal, Triangular, Sparse, generic and no_dispatch operators; all offsets k in (-n, n) for n <= 12 and "
         "a spread incl. +-99/100/101 for n in {99,100,101,150,199,200,201,230}; alg Exact / Auto (default tol) / omitted; "
         "diag(A,k) and trace(A) compared with the reference; the rule selected for the top call is observed through the "
         "dispatch tap: a structural rule may refuse (counted), the generic probing may not; structural answers are also "
         "compared with the generic probing of the same operator; distinct = structure + k + alg")

META["C09"] = M(
    shards={"quick": 16, "thorough": 64}, budget={"quick": 120, "thorough": 1200},
    floors={"quick": {"evals": 2500, "distinct": 1000}, "thorough": {"evals": 60000, "distinct": 25000}},
    required=["action", "sqrt-twice-is-A", "pow-1-is-inverse", "integer-power-is-repeated-product", "zero-column-maps-to-zero"],
    rule="operators with controlled spectrum (Hermitian positive definite declared PSD, singular PSD for exp, general with "
         "eigenvalues in the open right half plane and cond(V) <= 3, complex Hermitian) as leaves and under every structural "
         "rule (Diagonal, BlockDiag with multiplicities, Identity, ScalarMul, Transpose, Adjoint, KronSum for exp, Kronecker "
         "for pow); functions exp/log/sqrt/isqrt/pow(a in {-2,-1,-0.5,0,0.5,1,2,3,9,10,2.5})/apply_unary(x^3+1, cos); algorithm "
         "omitted/Auto/Eigh/Eig/Lanczos/Arnoldi with max_iters n, n+3 and the default; f(A)@v compared per column with "
         "V f(L) V^-1 v of the reference (principal branch), single and multi-column operands with norms spread over 12 orders; "
         "distinct = structure + function + exponent + algorithm + iteration cap + operand rank")

META["C10"] = M(
    shards={"quick": 16, "thorough": 64}, budget={"quick": 120, "thorough": 1200},
    floors={"quick": {"evals": 6000, "distinct": 1200}, "thorough": {"evals": 150000, "distinct": 25000}},
    required=["selection", "residual", "count", "independent", "orthonormal-for-self-adjoint", "eigmax", "eigmin"],
    rule="square operators with simple spectra of distinct magnitudes (relative gaps >= 0.05): self-adjoint definite and "
         "indefinite (dominant eigenvalue of either sign), real general with complex-conjugate pairs (ties in modulus), complex "
         "general, Diagonal with unsorted/negative/complex entries, lower and upper Triangular, Identity; all 1<=k<=n, LM/SM, "
         "algorithm omitted/Auto/Eigh/Eig/Lanczos/Arnoldi (caps n, n+4, default 1000)/PowerIteration; every returned pair judged "
         "for residual, non-zero and independent (orthonormal if self-adjoint) vectors, count, and a tie-aware magnitude "
         "selection test against the reference spectrum; eigmax/eigmin likewise; distinct = kind+structure+k+which+alg+cap")

META["C11"] = M(
    shards={"quick": 16, "thorough": 64}, budget={"quick": 120, "thorough": 1200},
    floors={"quick": {"evals": 6000, "distinct": 500}, "thorough": {"evals": 150000, "distinct": 10000}},
    required=["L-LH-equals-A", "P-L-U-equals-A", "lower-triangular", "upper-triangular", "P-is-permutation", "structure-kept"],
    rule="well-conditioned positive-definite (cholesky) / non-singular (plu) operator trees over Dense, Identity, Diagonal (incl. "
         "negative and complex entries for plu), ScalarMul, Kronecker with 2-3 factors of unequal size, BlockDiag with "
         "multiplicities and nestings, real/complex, single/double; the densified factors are checked for their zero pattern "
         "(lower / upper / permutation) and for reproducing the reference matrix; the returned operators' type tree is checked "
         "against the input's (Kronecker -> Kronecker of factors, BlockDiag -> BlockDiag with the same multiplicities, "
         "Diagonal/ScalarMul/Identity -> no Dense); distinct = function + canonical structure")

META["C12"] = M(
    shards={"quick": 16, "thorough": 64}, budget={"quick": 120, "thorough": 1200},
    floors={"quick": {"evals": 4000, "distinct": 400}, "thorough": {"evals": 80000, "distinct": 8000}},
    required=["krylov-optimal-iterate", "iteration-cap", "product-count", "stopped-early-only-when-converged",
              "stops-as-soon-as-converged", "info-iterations", "info-errors", "zero-rhs-exact-zero", "linear-in-b",
              "columns-independent", "initial-iterate-is-x0", "recursive-residual-is-true-residual"],
    rule="Hermitian positive-definite operators Q diag(l) Q^H (real/complex, n 1..200, cond 1..1e6, spectrum families uniform / "
         "log-spaced / outliers / tight clusters / repeated), right-hand sides single and multiple with column norms spread over "
         "12 orders and zero columns, x0 none/zero/random/exact, preconditioner none/Jacobi/random SPD/Nystrom, tol 1e-12..1e-1, "
         "max_iters 0..2n, through cg() and inv(A, CG()) @ b; every loop state is recorded (loop-state tap) and products with A are "
         "counted; per column: optimality against the extended-precision Krylov optimum in the calibrated regimes R1/R2, "
         "residual consistency, monotone A-norm error, the stopping contract on logical steps, bookkeeping, exact zeros, "
         "linearity and column independence; distinct = full configuration tuple")

META["C13"] = M(
    shards={"quick": 16, "thorough": 64}, budget={"quick": 120, "thorough": 1200},
    floors={"quick": {"evals": 5000, "distinct": 250}, "thorough": {"evals": 100000, "distinct": 1500}},
    required=["minimal-residual", "not-above-initial-residual", "non-increasing-in-m", "zero-residual-at-full-degree",
              "product-count"],
    rule="invertible operators V diag(l) V^-1 (real with conjugate pairs / complex, normal and non-normal with cond(V)<=3, "
         "|l| in [1,3] in the right half plane, n 1..40 (150 in thorough), kappa<=1e2 re-measured), right-hand sides generic / one "
         "eigenvector / few eigenvectors (early breakdown), single and multiple, x0 none/zero/random, tol 1e-12..1e-6, through "
         "gmres() and inv(A, GMRES()) @ b; for a sweep of m below, at and beyond n the residual of the returned iterate is "
         "compared with the reference minimum over x0 + K_m (orthonormal basis + dense least squares), with the initial "
         "residual, with the previous m, and with zero once m reaches the degree known by construction; products with A are "
         "counted; distinct = configuration tuple")

META["C14"] = M(
    shards={"quick": 16, "thorough": 64}, budget={"quick": 120, "thorough": 1200},
    floors={"quick": {"evals": 3000, "distinct": 300}, "thorough": {"evals": 60000, "distinct": 4000}},
    required=["orthonormal", "first-column", "T-real-symmetric-tridiagonal-nonneg", "T-is-QH-A-Q", "AQ-QT-vanishes-except-last-column",
              "spans-krylov-space", "column-count", "stops-when-exhausted", "eigenvalues-of-T-exact-after-exhaustion",
              "ritz-values-ascending", "ritz-pairs", "no-zero-columns-unbatched"],
    rule="Hermitian operators Q diag(l) Q^H (real symmetric / complex Hermitian; simple, indefinite, log-spaced indefinite, "
         "repeated and tightly clustered spectra; n 1..60 plus 150-300 as a re-orthogonalisation stress), start vectors generic / "
         "one eigenvector / sum of few eigenvectors / default (keyed) / batched blocks (generic and mixed with eigenvector "
         "columns), max_iters 1..n+5 and the default, tol 1e-12..1e-3, through lanczos(), Lanczos()(A) and lanczos_eigs(); the "
         "returned Q, T are judged against the reference matrix: orthonormality (1e-12), first column, T pattern, T = Q^H A Q, "
         "three-term relation, principal angles to a reference Krylov basis, column cap, early stop at a known Krylov dimension "
         "with exact eigenvalues, ascending Ritz pairs; distinct = configuration tuple")

META["C15"] = M(
    shards={"quick": 16, "thorough": 64}, budget={"quick": 120, "thorough": 1200},
    floors={"quick": {"evals": 3000, "distinct": 300}, "thorough": {"evals": 60000, "distinct": 4000}},
    required=["shapes", "first-column", "H-upper-hessenberg-nonneg-subdiagonal", "arnoldi-relation", "orthonormal-basis",
              "padding-is-zero", "beyond-n-equals-n-steps", "full-run-gives-spectrum", "no-eigenpairs-from-padding",
              "eigenvalues-exact-after-breakdown", "zero-after-the-steps-run", "early-stop-is-a-breakdown"],
    rule="square operators V diag(l) V^-1 (real with conjugate pairs / complex, normal and non-normal, n 1..40 (200 in "
         "thorough), kappa<=1e2), start vectors generic / in a 1- or few-dimensional invariant subspace (breakdown) / default "
         "(keyed) / batched, max_iters 1..n+10 and the defaults, tol 1e-12..1e-5, through arnoldi(), Arnoldi()(A) and "
         "arnoldi_eigs(); Q and H judged for shapes, first column, Hessenberg pattern with non-negative sub-diagonal, the "
         "Arnoldi relation, orthonormality of the first min(m+1, d) columns to c*eps*kappa/rho_m (rho_m the reference "
         "minimal residual, judged while >= 1e-8), zero padding beyond n, equality with the n-step run, and arnoldi_eigs with "
         ">= n steps against the reference spectrum (multiset match); distinct = configuration tuple")

META["C16"] = M(
    shards={"quick": 16, "thorough": 64}, budget={"quick": 120, "thorough": 1200},
    floors={"quick": {"evals": 4000, "distinct": 600}, "thorough": {"evals": 80000, "distinct": 8000}},
    required=["U-orthonormal-columns", "V-orthonormal-columns", "Sigma-nonnegative-diagonal", "U-Sigma-VH-equals-A",
              "k-largest-singular-values", "best-rank-k-approximation", "pinv-is-min-norm-least-squares", "pinv-auto-large"],
    rule="operators of shape m x n (m<n, m=n, m>n up to 12, real/complex/single) with well-separated singular values (cond 4) as "
         "Dense / generic / Product with a unitary factor / Identity / Diagonal / ScalarMul / Permutation; svd(A, k) for all k "
         "with algorithm omitted/Auto/DenseSVD/Lanczos judged for orthonormal U, V, non-negative diagonal Sigma, reconstruction "
         "(k = min(m,n)) and, for Lanczos with k < min(m,n), the k largest singular values and the best rank-k error; "
         "pinv(A, alg) @ b (alg omitted/Auto/LSTSQ/CG; consistent and inconsistent, 1-D and multi-column b) compared with the "
         "minimum-norm least-squares solution of the reference in solution, norm and residual; plus the >10^6-entry side of "
         "pinv's Auto switch; distinct = configuration tuple")

META["C17"] = M(
    shards={"quick": 16, "thorough": 64}, budget={"quick": 120, "thorough": 1200},
    floors={"quick": {"evals": 2000, "distinct": 300}, "thorough": {"evals": 40000, "distinct": 4000}},
    required=["same-key-bit-identical", "global-state-untouched", "rng-trace-well-bracketed", "user-stream-conserved",
              "estimator-formula", "key-advanced-between-iterations", "iteration-cap", "unbiased-within-7-sigma",
              "rademacher-exact-on-diagonal-operator", "probe-moments"],
    rule="every drawing routine (Hutchinson diag/trace through the function and through Hutch(), stochastic Lanczos quadrature, "
         "default start vectors of Lanczos / Arnoldi / power iteration, Nystrom preconditioner, randomised SVD, LOBPCG) called "
         "twice with the same key around user draws and a reseed (bit-identical results), with the global NumPy state "
         "snapshotted before/after (bitwise), the numpy.random API tapped and checked against the bracket specification "
         "(get_state seed draw* set_state)*, random histories of user draws / reseeds / cola calls compared with a control "
         "stream (conservation), the Hutchinson estimate recomputed from the recorded probes for all offsets k and both probe "
         "distributions, probe moments in 7-sigma bands, iteration cap on recorded loop states, and a keyed 60-run bias test; "
         "distinct = configuration / history signature")

META["C18"] = M(
    shards={"quick": 16, "thorough": 64}, budget={"quick": 70, "thorough": 1500},
    floors={"quick": {"evals": 10000, "distinct": 3000}, "thorough": {"evals": 300000, "distinct": 60000}},
    required=["caller-arrays-bit-identical", "operator-unchanged", "repeated-call-same-result", "round-trip-same-operator",
              "leaves-are-exactly-the-array-parameters", "substituting-a-leaf", "independent-of-instantiation-order"],
    rule="histories over an alphabet of ~45 public operations (products on both sides, .T/.H, algebra, annotation wrapper, "
         "indexing, to(dtype), inv/solve/pinv with each algorithm incl. caller-supplied x0 / preconditioner, slogdet, diag/trace, "
         "matrix functions, eig/svd, cholesky/plu, Lanczos/Arnoldi/CG/GMRES with caller-supplied start vectors, flatten/"
         "unflatten) applied to a pool with one operator of every kind (incl. Fortran-ordered and non-contiguous view "
         "payloads), real and complex: every history of length 1, every/a sample of length 2 (all in thorough, plus a sample of "
         "length 3) and random length-10 histories; after every step byte hashes of all caller-owned arrays and a snapshot of the "
         "operator (dense, annotations, shape, dtype, leaves) are compared with the start, and the first call is repeated at the "
         "end; flatten/unflatten round trip with leaf identity and single-leaf substitution for every kind; and the round trip "
         "re-run in fresh interpreters after instantiating kinds in different orders (verdicts compared across orders); "
         "distinct = pool member + dtype + history")

META["C19"] = M(
    shards={"quick": 16, "thorough": 32}, budget={"quick": 60, "thorough": 600},
    floors={"quick": {"evals": 300, "distinct": 100}, "thorough": {"evals": 1200, "distinct": 100}},
    required=["no-densification-event", "peak-memory-bounded", "result-correct", "structural-rule-selected"],
    rule="large structured operators (Kronecker with 2-4 factors, KronSum, BlockDiag with multiplicities 40-120, Diagonal / "
         "ScalarMul / Identity / Permutation / Tridiagonal with n 2000-4000, and products / sums / scalar multiples of a "
         "Kronecker operator with a Diagonal; n >= 512 and n^2 >= 1000 x the factor storage) x every entry point with a "
         "structural rule (@ with 1 and 3 columns, left product, inv, solve, logdet/slogdet, diag, trace, sqrt/isqrt/pow/exp/"
         "log/apply_unary, cholesky, plu), each called with and without the optional algorithm argument, under a halt-on-"
         "error event monitor (to_dense of a large operator, products with >= n/4 columns, generic base case selected for "
         "the structured operand) and a tracemalloc peak bound of 64 x (operand + factor storage + n) x itemsize; results are "
         "also compared with a factor-wise reference; distinct = kind x entry point x algorithm variant")

META["C20"] = M(
    shards={"quick": 16, "thorough": 64}, budget={"quick": 120, "thorough": 1200},
    floors={"quick": {"evals": 15000, "distinct": 1500}, "thorough": {"evals": 600000, "distinct": 60000}},
    required=["entries", "sub-operator-dense", "sub-operator-right-product", "sub-operator-left-product", "result-kind", "sub-operator-shape", "sub-operator-transpose", "sub-operator-reindexed"],
    rule="operator trees of every kind and nesting (as C01, clean), square / tall / wide with dimensions 1..6; index expressions "
         "A[i,j], A[i], A[i,:], A[i,slice], A[:,j], A[slice,j], A[slice,slice], A[slice], A[rows,cols] with integer index "
         "arrays (unsorted, repeated, negative), mixed array/slice, and A[[i..],[j..]] with lists; integers over [-n, n), slices "
         "over start/stop in [-n, n] incl. None and steps in {None,1,2,3,-1,-2} (empty slices included); each compared with "
         "NumPy indexing of the reference matrix (outer selection for index arrays, element pairs for lists) in value, shape and "
         "kind (entry / vector / sub-operator); sub-operators through to_dense, right and left products with real and complex "
         "operands; distinct = operator structure + index forms")
