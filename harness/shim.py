"""NumPy-backend shim (DESIGN 3.1).

cola's backend-agnostic code calls xnp.vmap / linear_transpose / sparse_csr / to_np /
jvp_derivs / vjp_derivs / grad, which the only installed backend (NumPy) does not
implement.  The shim sets them on the live ``cola.backends.np_fns`` module *from the
harness* (nothing in /repo is edited) and mirrors the functional semantics of
``jax_fns``.  It is part of the trusted base of every check that reaches those paths and
is self-tested by ``bin/setup``.
"""
import numpy as np
import optree
import scipy.sparse

_INSTALLED = False


def _flatten(x):
    return optree.tree_flatten(x, namespace="cola")


def vmap(fun, in_axes=0, out_axes=0):
    assert in_axes == 0 and out_axes == 0, "shim vmap supports leading axes only"

    def mapped(*args):
        leaves, treedef = _flatten(args)
        sizes = {leaf.shape[0] for leaf in leaves if isinstance(leaf, np.ndarray) and leaf.ndim > 0}
        assert len(sizes) == 1, f"inconsistent mapped axis sizes {sizes}"
        (n, ) = sizes
        if n == 0:
            # empty mapped axis (e.g. a product with a 0-column operand): like jax, return empty outputs with the
            # structure and trailing shape that one call on a zero slice produces
            sl = [np.zeros(leaf.shape[1:], dtype=leaf.dtype) if isinstance(leaf, np.ndarray) and leaf.ndim > 0 else leaf for leaf in leaves]
            probe = fun(*optree.tree_unflatten(treedef, sl))
            pl, pdef = _flatten(probe)
            return optree.tree_unflatten(pdef, [np.zeros((0, ) + np.asarray(x).shape, dtype=np.asarray(x).dtype) for x in pl])
        outs = []
        for i in range(n):
            sl = [leaf[i] if isinstance(leaf, np.ndarray) and leaf.ndim > 0 else leaf for leaf in leaves]
            outs.append(fun(*optree.tree_unflatten(treedef, sl)))
        out_leaves = [_flatten(o) for o in outs]
        first_leaves, first_def = out_leaves[0]
        stacked = []
        for j in range(len(first_leaves)):
            stacked.append(np.stack([np.asarray(ol[0][j]) for ol in out_leaves], axis=0))
        return optree.tree_unflatten(first_def, stacked)

    return mapped


def linear_transpose(fun, primals, duals):
    """jax.linear_transpose(fun, primals)(duals)[0] for fun: (d,k)->(c,k) acting column-wise."""
    d = primals.shape[0]
    dt = np.result_type(primals.dtype, duals.dtype)
    M = np.asarray(fun(np.eye(d, dtype=dt)))  # (c, d)
    return M.T @ duals


class _CSR:
    """data taken in the given order exactly like jax BCSR((data, indices, indptr))."""
    def __init__(self, indptr, indices, data, shape):
        self.m = scipy.sparse.csr_array((np.asarray(data), np.asarray(indices), np.asarray(indptr)), shape=shape)
        self.shape = tuple(shape)
        self.dtype = np.asarray(data).dtype

    def __matmul__(self, V):
        return self.m @ V

    def todense(self):
        return self.m.toarray()


def sparse_csr(indptr, indices, data, shape):
    return _CSR(indptr, indices, data, shape)


def to_np(array):
    return np.asarray(array)


# --- derivative emulation: valid only for harness test functions that carry analytic
# --- derivatives as attributes (.jac(x) -> (m,n) matrix, .gradfn, .hess(x) -> (n,n)).
def jvp_derivs(fun, primals, tangents, create_graph=True):
    (x, ) = primals
    (t, ) = tangents
    if hasattr(fun, "jac"):
        return fun.jac(x) @ t
    raise NotImplementedError("shim jvp_derivs needs a function with an analytic .jac")


def vjp_derivs(fun, primals, duals, create_graph=True):
    (x, ) = primals
    if hasattr(fun, "jac"):
        return (duals @ fun.jac(x), )
    raise NotImplementedError("shim vjp_derivs needs a function with an analytic .jac")


def grad(fun):
    if hasattr(fun, "gradfn"):
        return fun.gradfn
    raise NotImplementedError("shim grad needs a function with an analytic .gradfn")


def install():
    """Idempotently install the shim on cola.backends.np_fns."""
    global _INSTALLED
    from cola.backends import np_fns
    if _INSTALLED and getattr(np_fns, "_verif_shim", False):
        return np_fns
    for name, fn in dict(vmap=vmap, linear_transpose=linear_transpose, sparse_csr=sparse_csr, to_np=to_np,
                         jvp_derivs=jvp_derivs, vjp_derivs=vjp_derivs, grad=grad).items():
        setattr(np_fns, name, fn)
    np_fns._verif_shim = True
    _INSTALLED = True
    return np_fns
