"""bin/setup self-test: environment, shim vs NumPy identities, reference interpreter vs np.kron & friends."""
import os
import sys

HERE = os.path.dirname(os.path.dirname(os.path.abspath(__file__)))
sys.path.insert(0, HERE)
import numpy as np  # noqa


def main():
    import optree  # noqa
    import scipy  # noqa
    from harness import core
    cola = core.setup_repo(os.environ.get("VERIF_REPO", "/repo"))
    from cola.backends import np_fns
    from harness import refmodel as R
    rng = np.random.default_rng(0)
    # vmap
    A = rng.standard_normal((4, 3, 3))
    assert np.allclose(np_fns.vmap(np.linalg.inv)(A), np.linalg.inv(A))
    out = np_fns.vmap(lambda t: (t[0] + 1, t[0].sum()))((A, ))
    assert np.allclose(out[0], A + 1) and np.allclose(out[1], A.sum((1, 2)))
    # linear_transpose
    M = rng.standard_normal((3, 5)) + 1j * rng.standard_normal((3, 5))
    D = rng.standard_normal((3, 2))
    lt = np_fns.linear_transpose(lambda X: M @ X, np.zeros((5, 2)), D)
    assert np.allclose(lt, M.T @ D)
    # sparse_csr keeps the data order it is given
    S = np_fns.sparse_csr(np.array([0, 2, 3]), np.array([1, 0, 2]), np.array([5., 7., 9.]), (2, 3))
    assert np.allclose(S @ np.eye(3), [[7, 5, 0], [0, 0, 9]])
    # reference interpreter vs NumPy
    a, b = rng.standard_normal((2, 3)), rng.standard_normal((4, 2))
    assert np.allclose(R._kron(a, b), np.kron(a, b))
    s1, s2 = rng.standard_normal((2, 2)), rng.standard_normal((3, 3))
    assert np.allclose(R._kronsum([s1, s2]), np.kron(s1, np.eye(3)) + np.kron(np.eye(2), s2))
    import scipy.linalg
    assert np.allclose(R._blockdiag([a, b]), scipy.linalg.block_diag(a, b))
    node = {"k": "Kronecker", "args": [{"k": "Dense", "shape": [2, 3], "dt": "f8", "seed": 1},
                                       {"k": "Diagonal", "n": 2, "dt": "c16", "seed": 2}]}
    r = R.dense(node)
    assert r.M.shape == (4, 6) and r.dtype == np.complex128
    print("setup ok: cola from", os.path.dirname(cola.__file__))


if __name__ == "__main__":
    main()
