"""Probes attached from the harness to the live modules (DESIGN 3.4).  Every probe counts its events."""
import hashlib
import warnings
from collections import Counter

import numpy as np


# ---------------------------------------------------------------------------------------------
# Dispatch tap: one event per dispatched call that reaches the resolver (plum caches faithful resolutions by
# argument types; cache hits are counted but carry no rule information).
# ---------------------------------------------------------------------------------------------
class DispatchTap:
    def __init__(self):
        self.events = []  # (function name, arg type names, rule id or error type)
        self.rules = Counter()
        self.errors = []
        self.calls = 0
        self._installed = False
        self.keep_events = False

    def install(self):
        if self._installed:
            return self
        from plum.function import Function
        from plum.resolver import AmbiguousLookupError, NotFoundLookupError
        tap = self
        orig = Function.resolve_method

        def resolve_method(fself, target):
            tap.calls += 1
            try:
                out = orig(fself, target)
            except (AmbiguousLookupError, NotFoundLookupError) as e:
                args = target if isinstance(target, tuple) else ()
                rec = {"function": fself.__name__, "error": type(e).__name__,
                       "types": [type(a).__name__ for a in args],
                       "annotations": [sorted(map(str, getattr(a, "annotations", []))) for a in args]}
                tap.errors.append(rec)
                if tap.keep_events:
                    tap.events.append((fself.__name__, tuple(rec["types"]), type(e).__name__))
                raise
            sig = out[2]
            rid = f"{fself.__name__}({', '.join(_tname(t) for t in sig.types)})" + \
                  (f" p={sig.precedence}" if sig.precedence else "") + (" cond" if sig.condition is not None else "")
            tap.rules[rid] += 1
            if tap.keep_events:
                args = target if isinstance(target, tuple) else ()
                tap.events.append((fself.__name__, tuple(type(a).__name__ for a in args), rid))
            return out

        Function.resolve_method = resolve_method
        self._installed = True
        return self

    def reset(self):
        self.events.clear()
        self.errors.clear()


def _tname(t):
    s = getattr(t, "__name__", None) or str(t)
    return s.replace("cola.ops.operators.", "").replace("cola.ops.operator_base.", "").replace("typing.", "")


DISPATCH = DispatchTap()


# ---------------------------------------------------------------------------------------------
# Byte hashes of caller-owned arrays (write sanitizer's deciding oracle)
# ---------------------------------------------------------------------------------------------
def array_hash(a):
    a = np.asarray(a)
    h = hashlib.sha256()
    h.update(str((a.dtype.str, a.shape, a.strides)).encode())
    h.update(np.ascontiguousarray(a).tobytes())
    return h.hexdigest()


class Recorder:
    """Captures warnings (ComplexWarning etc.) around a call; recorded into witnesses, never a verdict."""
    def __enter__(self):
        self._cm = warnings.catch_warnings(record=True)
        self.caught = self._cm.__enter__()
        warnings.simplefilter("always")
        return self

    def __exit__(self, *a):
        self._cm.__exit__(*a)
        return False

    def names(self):
        return sorted({type(w.message).__name__ for w in self.caught})
