"""Parent side: shard scheduling, watchdogs, aggregation, triage against known findings,
evidence, VIOLATION / KNOWN-FINDING lines and exit code (DESIGN 3.5-3.8)."""
import argparse
import importlib
import json
import os
import subprocess
import sys
import tempfile
import time
from collections import Counter, defaultdict

HERE = os.path.dirname(os.path.dirname(os.path.abspath(__file__)))
sys.path.insert(0, HERE)
PY = "/venv/bin/python"


def match_known(fail, ent):
    oracles = ent["oracle"] if isinstance(ent["oracle"], list) else [ent["oracle"]]
    sites = ent["site"] if isinstance(ent["site"], list) else [ent["site"]]
    if fail["oracle"] not in oracles or (fail["site"] not in sites and "*" not in sites):
        return False
    fp = fail.get("preds") or {}
    for k, v in (ent.get("preds") or {}).items():
        if fp.get(k) != v:
            return False
    return True


def load_known(prop):
    path = os.path.join(HERE, "known_findings.json")
    if not os.path.exists(path):
        return []
    with open(path) as f:
        kf = json.load(f)
    return [(i, e) for i, e in enumerate(kf.get("findings", []))
            if e["property"] == prop and e.get("status", "open") == "open"]


def replay_dir_of(prop, tier, a):
    return os.path.join(HERE, "replays", prop, f"{tier}-s{a.seed}" if os.path.abspath(a.repo) == "/repo" else "scratch")


def main(argv=None):
    ap = argparse.ArgumentParser()
    ap.add_argument("prop")
    ap.add_argument("--tier", default=os.environ.get("VERIF_TIER", "quick"))
    ap.add_argument("--seed", type=int, default=int(os.environ.get("VERIF_SEED", "0") or 0))
    ap.add_argument("--repo", default=os.environ.get("VERIF_REPO", "/repo"))
    ap.add_argument("--replay", default=None)
    ap.add_argument("--jobs", type=int, default=int(os.environ.get("VERIF_JOBS", "16")))
    ap.add_argument("--no-evidence", action="store_true")
    a = ap.parse_args(argv)
    prop = a.prop.upper()
    tier = a.tier if a.tier in ("quick", "thorough") else "quick"
    t0 = time.time()
    # the monitor's static description (shard counts, floors, rule text) is read without importing cola
    from harness.meta import META
    meta = META[prop]
    nshards = 1 if a.replay else meta.SHARDS[tier]
    budget = meta.BUDGET_S[tier]
    watchdog = budget * 4 + 120

    env = dict(os.environ)
    env.update({"PYTHONHASHSEED": "0", "OMP_NUM_THREADS": "1", "OPENBLAS_NUM_THREADS": "1", "MKL_NUM_THREADS": "1",
                "PYTHONDONTWRITEBYTECODE": "1", "VERIF_SHARD_BUDGET_S": str(budget), "COLA_VERIF": "1",
                "PYTHONWARNINGS": "ignore"})
    env.pop("PYTHONPATH", None)
    # replays live in replays/<prop>/<tier>-s<seed>/ (runs against a scratch copy: .../scratch/); a new run of the same
    # tier and seed makes the earlier replays of that run stale
    replay_dir = replay_dir_of(prop, tier, a)
    if not a.replay:
        import shutil
        shutil.rmtree(replay_dir, ignore_errors=True)
    tmpd = tempfile.mkdtemp(prefix=f"verif_{prop}_")
    pending = list(range(nshards))
    running = {}
    results = {}
    try:
        while pending or running:
            while pending and len(running) < a.jobs:
                s = pending.pop(0)
                out = os.path.join(tmpd, f"s{s}.json")
                cmd = [PY, os.path.join(HERE, "harness", "shard.py"), prop, tier, str(a.seed), str(s), str(nshards),
                       a.repo, out] + ([os.path.abspath(a.replay)] if a.replay else [])
                lf = open(os.path.join(tmpd, f"s{s}.log"), "w")
                p = subprocess.Popen(cmd, env=env, stdout=lf, stderr=subprocess.STDOUT, cwd=tmpd)
                running[s] = (p, time.time(), out, lf)
            time.sleep(0.05)
            for s in list(running):
                p, ts, out, lf = running[s]
                rc = p.poll()
                if rc is None and time.time() - ts > watchdog:
                    p.kill()
                    p.wait()
                    rc = "watchdog"
                if rc is not None:
                    lf.close()
                    del running[s]
                    if os.path.exists(out):
                        with open(out) as f:
                            results[s] = json.load(f)
                    else:
                        with open(os.path.join(tmpd, f"s{s}.log")) as f:
                            tail = f.read()[-2000:]
                        results[s] = {"status": "crashed", "error": f"rc={rc} no result file\n{tail}", "shard": s}
    finally:
        for s, (p, *_r) in running.items():
            p.kill()
    return finish(prop, tier, a, meta, results, nshards, t0, tmpd)


def finish(prop, tier, a, meta, results, nshards, t0, tmpd):
    evals, fail_counts, hist, notes = Counter(), Counter(), defaultdict(Counter), Counter()
    distinct, fails, samples, inconc, known_runs = set(), [], [], [], []
    cases = 0
    for s in sorted(results):
        r = results[s]
        if r.get("status") != "ok":
            inconc.append(f"shard {s} {r.get('status')}: {(r.get('error') or '')[-600:]}")
            continue
        evals.update(r["evals"])
        fail_counts.update(r["fail_counts"])
        for k, v in r["hist"].items():
            hist[k].update(v)
        for nk, nv in r["notes"].items():  # counters add up; "max_*" notes are maxima
            notes[nk] = max(notes.get(nk, 0), nv) if nk.startswith("max_") else notes.get(nk, 0) + nv
        distinct.update(r["distinct"])
        fails.extend(r["fails"])
        cases += r["cases"]
        if len(samples) < 4:
            samples.extend(r["samples"][:1])
        inconc.extend(r.get("inconclusive", []))
        known_runs.extend(r.get("known", []))

    known = load_known(prop)
    lines, new_fails, known_hit = [], [], set()
    for f in fails:
        hit = None
        for idx, ent in known:
            if match_known(f, ent):
                hit = idx
                break
        if hit is None:
            new_fails.append(f)
        else:
            known_hit.add(hit)
    # deterministic reproducers of the open findings
    reproduced = {}
    for kr in known_runs:
        ent = dict(known).get(kr["idx"])
        if ent is None:
            continue
        reproduced[kr["idx"]] = any(match_known(f, ent) for f in kr["fails"])
        # a reproducer may surface *other* fingerprints too; they are ordinary failures
    for idx, ent in known:
        if reproduced.get(idx) or idx in known_hit:
            lines.append(f"KNOWN-FINDING: property={prop} {ent['what']}")
        elif not a.replay:
            lines.append(f"STALE-FINDING: property={prop} listed finding no longer reproduces: {ent['what']}")

    total_evals = sum(evals.values())
    floors = meta.FLOORS[tier]
    if not a.replay:
        if total_evals < floors["evals"]:
            inconc.append(f"only {total_evals} oracle evaluations (< floor {floors['evals']})")
        if len(distinct) < floors["distinct"]:
            inconc.append(f"only {len(distinct)} distinct non-trivial cases (< floor {floors['distinct']})")
        for o in meta.REQUIRED_ORACLES:
            if evals.get(o, 0) == 0:
                inconc.append(f"deciding oracle '{o}' was never evaluated")

    # replays for new violations: one per fingerprint
    replay_paths = []
    seen_fp = set()
    for f in new_fails:
        if f["fp"] in seen_fp:
            continue
        seen_fp.add(f["fp"])
        d = replay_dir_of(prop, tier, a)
        os.makedirs(d, exist_ok=True)
        import hashlib
        name = hashlib.md5(f["fp"].encode()).hexdigest()[:10] + ".json"
        path = os.path.join(d, name)
        rec = dict(f)
        rec["count_in_run"] = fail_counts.get(f["fp"], 1)
        with open(path, "w") as fh:
            json.dump(rec, fh, indent=1, sort_keys=True)
        replay_paths.append((f, path))

    wall = time.time() - t0
    if not a.no_evidence and not a.replay:
        ev = {
            "property_id": prop, "tier": tier, "seed": a.seed, "level": "exploration",
            "coverage": {
                "evaluations": int(total_evals), "distinct_nontrivial": len(distinct), "rule": meta.RULE,
                "samples": samples[:4] or ["<none>"], "cases": cases, "evaluations_by_oracle": dict(evals),
                "histograms": {k: dict(v) for k, v in hist.items()}, "notes": dict(notes),
                "shards": nshards, "known_findings_reproduced": sorted(i for i, v in reproduced.items() if v),
                "new_failure_fingerprints": {fp: c for fp, c in fail_counts.items() if fp in seen_fp},
                "inconclusive_reasons": inconc, "exhaustive": bool(getattr(meta, "EXHAUSTIVE", False)),
            },
            "assumptions": list(meta.ASSUMPTIONS), "wall_s": round(wall, 2), "violations": len(seen_fp),
        }
        os.makedirs(os.path.join(HERE, "evidence"), exist_ok=True)
        with open(os.path.join(HERE, "evidence", f"{prop}.json"), "w") as fh:
            json.dump(ev, fh, indent=1, sort_keys=True)

    for ln in lines:
        print(ln)
    print(f"[{prop} {tier} seed={a.seed}] cases={cases} evaluations={total_evals} distinct={len(distinct)} "
          f"oracles={dict(evals)} wall={wall:.1f}s")
    import shutil
    if replay_paths:
        for i, (f, path) in enumerate(replay_paths):
            if i < 6:
                print(f"  failing: oracle={f['oracle']} site={f['site']} preds={f['preds']} x{fail_counts.get(f['fp'], 1)}")
                print(f"    detail: {json.dumps(f['detail'])[:300]}")
            print(f"VIOLATION property={prop} replay={path}")
        for r in inconc[:5]:
            print(f"  (also inconclusive: {r[-500:]})")
        shutil.rmtree(tmpd, ignore_errors=True)
        return 1
    if inconc:
        for r in inconc[:10]:
            print(f"INCONCLUSIVE property={prop} {r}")
        print(f"  (shard logs kept in {tmpd})")
        return 2
    shutil.rmtree(tmpd, ignore_errors=True)
    return 0


if __name__ == "__main__":
    sys.exit(main())
