"""Blame assignment for tree-shaped cases (DESIGN 3.6): the smallest failing sub-expression."""
import numpy as np

from harness import refmodel as R


def blame(node, fails, budget=40):
    """fails(node) -> bool (True when the oracle fails on that sub-expression, evaluated from scratch).
    Returns the smallest subtree that fails while all of its children pass (children first)."""
    state = {"n": 0}

    def rec(nd):
        for c in R.children(nd):
            if state["n"] >= budget:
                break
            state["n"] += 1
            try:
                bad = fails(c)
            except Exception:  # noqa  (the sub-expression cannot even be evaluated by the harness: do not blame it)
                bad = False
            if bad:
                return rec(c)
        return nd

    return rec(node)


def dt_class(dtype):
    return "complex" if np.dtype(dtype).kind == "c" else "real"


def leaf_preds(node):
    """Mechanism-level facts about the blamed node (never payload values)."""
    k = node["k"]
    p = {}
    if k == "Sparse":
        p["cols_sorted"] = bool(node.get("sorted", True))
        p["duplicates"] = bool(node.get("dups", False))
    if k == "Kernel":
        p["square"] = node["n1"] == node["n2"]
        p["block_gt_n"] = bool(node["bs1"] > node["n1"] or node["bs2"] > node["n2"])
    if k == "Sliced":
        sl = node["slices"]
        p["index_array"] = any("i" in s for s in sl)
        p["repeated_index"] = any("i" in s and len(set(s["i"])) < len(s["i"]) for s in sl)
    if k == "BlockDiag":
        p["multiplicities"] = bool(node.get("mult")) and any(c > 1 for c in node["mult"])
    if k == "Concatenated":
        p["axis"] = node["axis"]
    if k in ("Kronecker", "KronSum", "Product", "Sum"):
        p["nargs>2"] = len(node["args"]) > 2
    return p
