"""Per-property wording for MANIFEST.json."""
_NOTE = ("trusted: NumPy/SciPy/BLAS, optree, the vendored plum fork, the harness shim that supplies the backend functions "
         "missing from the NumPy backend, and the harness's reference interpreter; only the NumPy backend is observed")
TEXT = {
    "C01": {
        "level": "Held on the executions observed: thousands (quick) to hundreds of thousands (thorough) of generated operator "
                 "expression trees over every operator kind, each compared against an independent reference interpreter on "
                 "products, densification, shape and dtypes. Sampling, not proof; evidence reports kinds, depths, shapes and "
                 "operand classes actually covered.",
        "note": _NOTE,
        "technique": "runtime monitoring: differential oracle (reference interpreter) over generated expression trees, with blame assignment",
    },
    "C02": {
        "level": "Held on the executions observed: generated expression trees (incl. truly Hermitian/PSD/unitary operators declared "
                 "as such, real and complex) x towers of .T/.H up to depth 3, each judged through densification, right and left "
                 "products against the reference interpreter. Sampling, not proof.",
        "note": _NOTE,
        "technique": "runtime monitoring: differential oracle (reference interpreter) over expression trees x transpose/adjoint towers, left and right products",
    },
    "C03": {
        "level": "Held on the executions observed: generated algebraic expressions (random and directed at the named "
                 "simplifications) evaluated through cola's overloads/functions and independently on dense matrices; value, "
                 "shape, dtype, operator-vs-array kind compared; shape-mismatched operand pairs must raise. Sampling, not proof.",
        "note": _NOTE + "; NumPy-typed scalars are generated no wider than the operator they scale (wider ones are recorded as not judged, DESIGN 4.0)",
        "technique": "runtime monitoring: differential oracle (dense evaluation of the same expression) with sub-expression blame; exception monitor for mismatched shapes",
    },
    "C04": {
        "level": "The finite lattice (function x kind or ordered pair of kinds x declared annotation x admitted algorithm class x "
                 "omitted/explicit optional arguments x real/complex x square/tall x two registry configurations) is enumerated "
                 "completely (thorough; the quick tier enumerates a stated sub-lattice completely) and every tuple is executed on tiny "
                 "real instances with a tap on the live resolver, so ambiguous / missing rules are observed at the top call and in "
                 "nested dispatched calls. Exhaustive over the lattice as defined in the monitor, not over user-defined kinds.",
        "note": _NOTE + "; the table of admitted algorithm classes per function is transcribed from the docstrings; nested lookups "
                "are only observed when the selected rule gets far enough to make them",
        "technique": "runtime monitoring: exhaustive execution of the dispatch lattice with a resolver tap (AmbiguousLookupError/NotFoundLookupError events)",
    },
    "C05": {
        "level": "Held on the executions observed: generated trees with true declarations through every combinator, outputs of "
                 "lanczos/arnoldi/eig/svd/matrix functions, and every operator constructed on the way (creation tap), each reported "
                 "annotation tested numerically on the represented matrix; declaration wrappers tested for same action and an "
                 "untouched argument on operators of every kind. Sampling, not proof.",
        "note": _NOTE + "; Krylov routine outputs are judged in double precision with well-conditioned inputs; lazily iterative operators "
                "(CG/GMRES inverses, Krylov matrix functions) are excluded from the creation-tap densification",
        "technique": "runtime monitoring: invariant at a hook (operator-creation tap) + numeric truth oracle on annotations with sub-expression blame",
    },
    "C06": {
        "level": "Held on the executions observed: generated well-conditioned invertible operator trees x algorithm x tolerance x "
                 "right-hand-side shape, every result compared with the dense reference under the error bound of the path that "
                 "actually ran (direct: c*eps*cond; CG: requested tolerance through its stopping rule; GMRES to full dimension), "
                 "including inv(A).to_dense(), and on direct paths inv(A).T/.H and b@inv(A); both sides of the 10^6 Auto switch.",
        "note": _NOTE + "; condition numbers are bounded by construction and re-measured on the reference (cases above 300 are "
                "skipped and counted); single-precision GMRES is run with exactly n iterations",
        "technique": "runtime monitoring: differential oracle (dense solve of the reference matrix) with path-dependent error bounds and sub-expression blame",
    },
    "C07": {
        "level": "Held on the executions observed: generated non-singular well-conditioned operator trees x (log algorithm, trace "
                 "algorithm) pairs, (sign, logabs) and logdet compared with numpy.linalg.slogdet of the reference matrix; every "
                 "structural slogdet rule and every base case is reached (rule histogram in the evidence).",
        "note": _NOTE + "; the Lanczos/Arnoldi pairs go through the matrix logarithm and are judged in double precision, for "
                "sub-expressions whose spectrum stays away from the closed negative real axis and whose eigenvectors are well "
                "conditioned (regime decided on the reference; skipped cases are counted)",
        "technique": "runtime monitoring: differential oracle (reference slogdet) over generated trees x algorithm pairs with sub-expression blame",
    },
    "C08": {
        "level": "Held on the executions observed: generated square operator trees x offsets k x {Exact, Auto, omitted}, diag and "
                 "trace compared exactly (integer payloads) with the reference diagonal; the rule that served the top call is "
                 "observed (dispatch tap) so that refusals are accepted from structural rules only; structural answers are "
                 "compared with the generic probing of the same operator; sizes straddle the probing block (100).",
        "note": _NOTE,
        "technique": "runtime monitoring: differential oracle (reference diagonal + generic-vs-structural) with dispatch-tap attribution of refusals",
    },
    "C09": {
        "level": "Held on the executions observed: operators with spectrum known by construction under every structural rule x "
                 "function x exponent x algorithm x iteration cap x operand rank, f(A)@v compared per column with V f(L) V^-1 v of "
                 "the reference (principal branch); sqrt twice, power -1 and integer powers also compared with A, the inverse and "
                 "repeated products.",
        "note": _NOTE + "; Lanczos/Arnoldi paths are judged in double precision with max_iters >= n (the statement asks for the full "
                "Krylov dimension) to a 1e-9-based bound",
        "technique": "runtime monitoring: differential oracle (reference eigendecomposition with constructed spectrum) with sub-expression blame",
    },
    "C10": {
        "level": "Held on the executions observed: operators with constructed simple spectra x k x LM/SM x algorithm x iteration cap; "
                 "every returned pair judged for residual, non-zero/independent (orthonormal when self-adjoint) vectors, count and a "
                 "tie-aware magnitude-selection test against the reference spectrum; eigmax/eigmin likewise.",
        "note": _NOTE + "; power iteration (bounded-progress restatement) is judged only when the reference spectrum has a dominance "
                "ratio <= 0.8, to 1e-4; Krylov paths are judged with at least n iterations in double precision; LOBPCG is not in "
                "the statement's list and is not judged",
        "technique": "runtime monitoring: reference-spectrum oracle (tie-aware selection, residuals, orthonormality) over generated spectra",
    },
    "C11": {
        "level": "Held on the executions observed: generated positive-definite / non-singular structured operator trees; factors "
                 "densified and checked for zero pattern and for reproducing the reference matrix; the returned operators' type "
                 "tree compared with the input operator's (factor-wise Kronecker/BlockDiag with the same multiplicities, no Dense "
                 "for Diagonal/ScalarMul/Identity inputs).",
        "note": _NOTE + "; 'keeps the structure' is read off the public operator classes, as the statement is about them",
        "technique": "runtime monitoring: reference reconstruction oracle + structural invariant on the returned operator tree",
    },
    "C12": {
        "level": "Held on the executions observed: every CG loop state is recorded by a tap on the instrumented while loop and "
                 "products with A are counted; per column the iterates are compared with the extended-precision Krylov optimum in "
                 "regimes fixed by construction and calibrated on the unchanged code, and the stopping contract, bookkeeping, exact "
                 "zeros, linearity and column independence are judged on logical steps.",
        "note": _NOTE + "; optimality is only judged where finite-precision CG provably-in-practice tracks exact arithmetic (k<=2 "
                "anywhere; k<=4 for cond<=1e2; k<=30 for uniformly spaced spectra without preconditioner), elsewhere only the "
                "locally enforced relations are judged; info['iterations'] may count steps or loop tests",
        "technique": "runtime monitoring: loop-state tap + product counter, trace checked offline against an extended-precision Krylov-optimum oracle and the stopping-rule specification",
    },
    "C13": {
        "level": "Held on the executions observed: for generated invertible operators, right-hand sides (incl. early breakdown) and a "
                 "sweep of m below, at and beyond n, the residual of the returned iterate is compared with the reference minimum "
                 "over x0 + K_m(A, r0), the initial residual, the previous m and zero at the degree known by construction; products "
                 "with A are counted.",
        "note": _NOTE + "; minimal-residual is judged while the reference minimum is >= 1e-6 ||r0|| and kappa(A) <= 1e2; 'zero to "
                "rounding' is 1e-5 ||r0|| (100x the worst value measured on the unchanged single-pass-MGS + normal-equations "
                "algorithm); one extra product for the initial residual is allowed",
        "technique": "runtime monitoring: reference least-squares oracle over the Krylov space + product counter, swept over the iteration cap",
    },
    "C14": {
        "level": "Held on the executions observed: generated Hermitian operators (several spectrum families and scales) x start "
                 "vectors (generic, eigenvector, few eigenvectors, default, batched) x iteration caps x tolerances; the returned "
                 "Q, T are judged against the reference matrix for orthonormality (1e-12), first column, T pattern, projection, "
                 "three-term relation, Krylov spans, column cap, early and non-premature stopping, and Ritz pairs.",
        "note": _NOTE + "; span comparisons and exhaustion are judged only where they are numerically well conditioned (each new "
                "reference Krylov direction >= 1e-3 ||A q||; O(1) separated spectra for exhaustion); exhausted batch columns are "
                "frozen at zero and only have to be harmless",
        "technique": "runtime monitoring: invariant oracles on the returned factorisation against the reference matrix and a reference Krylov basis",
    },
    "C15": {
        "level": "Held on the executions observed: generated square operators x start vectors (generic, invariant-subspace, default, "
                 "batched) x iteration caps below/at/beyond n x tolerances; Q, H judged for shapes, first column, Hessenberg pattern, "
                 "Arnoldi relation, orthonormality (bound c*eps*kappa/rho_m while the Krylov space is not exhausted), zero padding, "
                 "equality with the n-step run, and arnoldi_eigs against the reference spectrum.",
        "note": _NOTE + "; beyond exhaustion (breakdown) no further orthonormal Krylov vectors exist, extra columns only have to be "
                "harmless; for m > n the Arnoldi relation is judged on the n columns of the n-step factorisation; eigenvector "
                "accuracy of arnoldi_eigs is recorded, not judged (C10 judges eigenpairs)",
        "technique": "runtime monitoring: invariant oracles on the returned factorisation against the reference matrix, reference minimal residual and reference spectrum",
    },
    "C16": {
        "level": "Held on the executions observed: generated m x n operators (tall, wide, square; several kinds) with well-separated "
                 "singular values; svd factors judged for orthonormality, non-negative diagonal Sigma, reconstruction, and for the "
                 "Krylov algorithm with k < min(m,n) the top-k values and best rank-k error; pinv(A) @ b compared with the reference "
                 "minimum-norm least-squares solution for every algorithm and structural rule, incl. the large side of the Auto switch.",
        "note": _NOTE + "; the dense SVD asked for fewer than min(m,n) triplets returns all of them: recorded, not judged (DESIGN 4.0); "
                "CG-based pinv is judged to its requested tolerance times cond^2",
        "technique": "runtime monitoring: reference SVD / least-squares oracle over generated shapes, kinds and algorithms",
    },
    "C17": {
        "level": "Held on the executions observed: every drawing routine run under an RNG tap (numpy.random API events + keyed "
                 "draws), a bitwise snapshot of the global state around each call, random user/cola histories compared with a "
                 "control stream, the Hutchinson estimate recomputed from the recorded probes, and keyed statistical band tests.",
        "note": _NOTE + "; statistical statements (unbiasedness) are decided by the deterministic estimator-formula monitor plus 7-sigma "
                "bands on keyed samples: a bias below the band of the budgeted sample is not seen; bit-identity is within one "
                "process",
        "technique": "runtime monitoring: RNG-API event tap checked online against a bracket trace specification, state-snapshot conservation oracle, probe-replay oracle for the estimator",
    },
    "C18": {
        "level": "Held on the executions observed: histories of public operations over a pool with one operator of every kind; after "
                 "every step the byte hashes of all caller-owned arrays and a snapshot of the operator are compared with the start "
                 "(write sanitizer), the first call is repeated at the end; flatten/unflatten round trips with leaf identity and "
                 "single-leaf substitution; the round trip is re-run in fresh interpreters under different orders of first "
                 "instantiation and the verdicts are compared.",
        "note": _NOTE + "; device moves reduce to to(None, dtype) on the only installed backend; history length <= 2 exhaustively "
                "sampled in quick (all of length 1), all of length 2 and a sample of length 3 in thorough, plus random length-10 "
                "histories",
        "technique": "runtime monitoring: byte-hash write sanitizer and state snapshots around every operation of generated histories; differential oracle across fresh interpreters for instantiation-order dependence",
    },
    "C19": {
        "level": "Held on the executions observed: large structured operators x every entry point with a structural rule, with and "
                 "without the algorithm argument, under a halt-on-error densification-event monitor, a tracemalloc peak bound (64 x "
                 "(operand + factor storage + n) x itemsize; a dense materialisation exceeds it by >= 15x by construction) and a "
                 "factor-wise correctness reference.",
        "note": _NOTE + "; NumPy reports its buffers to tracemalloc; adjoint products of operators without an explicit left product go "
                "through the harness shim's linear_transpose (which materialises the map) and are therefore not used by this check",
        "technique": "runtime monitoring: allocation meter (tracemalloc peak) + halt-on-error event monitor on to_dense / identity-width products / dispatch path",
    },
    "C20": {
        "level": "Held on the executions observed: generated operator trees of every kind (square/tall/wide) x index expressions of "
                 "every supported form (integers incl. negative, slices incl. strided/negative-step/empty, integer index arrays, "
                 "mixed, lists), each compared with NumPy indexing of the reference matrix in value, shape and kind; sub-operators "
                 "through to_dense and right/left products with real and complex operands.",
        "note": _NOTE + "; two index arrays select the outer product of rows and columns (Sliced's documented semantics), two lists "
                "select element pairs; only Python int scalars are generated (NumPy integer scalars: recorded, not judged); "
                "out-of-range indices are not generated",
        "technique": "runtime monitoring: differential oracle (NumPy indexing of the reference matrix) over generated index expressions",
    },
}
NOT_APPLICABLE = {}
