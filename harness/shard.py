"""One shard of one property's workload, in a fresh interpreter (so /repo's working tree is re-imported)."""
import importlib
import json
import os
import sys
import time
import traceback

HERE = os.path.dirname(os.path.dirname(os.path.abspath(__file__)))
sys.path.insert(0, HERE)


def main():
    prop, tier, seed, shard, nshards, repo, out = sys.argv[1:8]
    seed, shard, nshards = int(seed), int(shard), int(nshards)
    replay = sys.argv[8] if len(sys.argv) > 8 else None
    budget = float(os.environ.get("VERIF_SHARD_BUDGET_S", "0") or 0)
    from harness import core
    result = {"prop": prop, "shard": shard, "status": "crashed", "error": None}
    try:
        cola = core.setup_repo(repo)
        result["cola_file"] = cola.__file__
        mod = importlib.import_module(f"harness.monitors.{prop.lower()}")
        ctx = core.Ctx(prop, tier, seed, shard, nshards, repo)
        from harness import build as _build_mod
        _build_mod.CTX = ctx
        ctx.auto_guard = prop not in ("C18", )  # (C18's histories update caller arrays on purpose and carry their own sanitizer)
        if budget:
            ctx.deadline = time.time() + budget
        rng = core.shard_rng(seed, prop, shard)
        known = []
        if replay is not None:
            with open(replay) as f:
                rec = json.load(f)
            run_one(mod, ctx, rec["case"], core)
        else:
            if shard == 0:
                known = reproduce_known(mod, prop, tier, seed, repo, core)
            if hasattr(mod, "run_shard"):
                mod.run_shard(ctx, tier, rng, shard, nshards)
            else:
                for case in mod.gen(tier, rng, shard, nshards):
                    if ctx.deadline is not None and time.time() > ctx.deadline:
                        ctx.note("stopped_at_budget")
                        break
                    run_one(mod, ctx, case, core)
        if hasattr(mod, "finalize"):
            mod.finalize(ctx)
        result.update(ctx.dump())
        result["known"] = known
        result["status"] = "ok"
    except BaseException as e:  # noqa
        result["error"] = "".join(traceback.format_exception(type(e), e, e.__traceback__))[-4000:]
    core.write_json(out, result)


def run_one(mod, ctx, case, core):
    """Run one case.  An exception that escapes the monitor is attributed: raised inside the
    observed repository -> an observation (oracle 'exception'); raised by harness code -> harness
    error (the shard is then inconclusive, never a verdict)."""
    try:
        mod.run_case(ctx, case)
    except Exception as e:  # noqa
        where = core.innermost_repo_frame(e, ctx.repo)
        if where is None:
            # harness error: never a verdict.  The run goes on (other cases may still observe violations) and ends
            # inconclusive unless it found a violation.
            ctx.note("harness_errors")
            if len(ctx.inconclusive) < 5:
                ctx.inconclusive.append("harness error in case " + json.dumps(core.jsonable(case))[:600] + ": " + traceback.format_exc()[-700:])
            if ctx.notes["harness_errors"] > 200:
                raise
            return
        ctx.check("exception", False, site=where, preds={"type": type(e).__name__},
                  detail=traceback.format_exc()[-1500:], case=case)


def reproduce_known(mod, prop, tier, seed, repo, core):
    """Run every open known finding's reproducer; report which fingerprints showed up."""
    path = os.path.join(HERE, "known_findings.json")
    out = []
    if not os.path.exists(path):
        return out
    with open(path) as f:
        kf = json.load(f)
    for idx, ent in enumerate(kf.get("findings", [])):
        if ent["property"] != prop or ent.get("status", "open") != "open":
            continue
        c2 = core.Ctx(prop, tier, seed, -1, 1, repo)
        try:
            run_one(mod, c2, ent["reproducer"], core)
            fps = [{"oracle": f["oracle"], "site": f["site"], "preds": f["preds"]} for f in c2.fails]
            out.append({"idx": idx, "fails": fps, "evals": sum(c2.evals.values())})
        except Exception as e:  # noqa
            out.append({"idx": idx, "fails": [], "evals": 0, "error": repr(e)[:300]})
    return out


if __name__ == "__main__":
    main()
