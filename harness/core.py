"""Shard-side context: event/evaluation log, failure records, coverage counters (DESIGN 3.5-3.8)."""
import hashlib
import json
import os
import sys
import time
import traceback
from collections import Counter, defaultdict

import numpy as np

MAX_FAIL_RECORDS = 60  # per shard; every failure is still *counted* per fingerprint


class Err:
    """An exception escaping a call into the code under observation (an event like any other)."""
    def __init__(self, exc, where):
        self.exc = exc
        self.type = type(exc).__name__
        self.msg = str(exc)[:300]
        self.where = where  # innermost frame inside the observed repository, or None

    def __repr__(self):
        return f"Err({self.type}: {self.msg[:120]} @ {self.where})"


def is_err(x):
    return isinstance(x, Err)


def jsonable(x, depth=0):
    if depth > 12:
        return "<deep>"
    if isinstance(x, (str, int, bool)) or x is None:
        return x
    if isinstance(x, float):
        return x if np.isfinite(x) else repr(x)
    if isinstance(x, complex):
        return {"re": jsonable(x.real), "im": jsonable(x.imag)}
    if isinstance(x, np.generic):
        return jsonable(x.item(), depth + 1)
    if isinstance(x, np.ndarray):
        if x.size <= 64:
            return jsonable(x.tolist(), depth + 1)
        return f"<array {x.shape} {x.dtype}>"
    if isinstance(x, dict):
        return {str(k): jsonable(v, depth + 1) for k, v in x.items()}
    if isinstance(x, (list, tuple, set, frozenset)):
        return [jsonable(v, depth + 1) for v in x]
    if isinstance(x, Err):
        return repr(x)
    if isinstance(x, type):
        return x.__name__
    return repr(x)[:200]


def fingerprint(prop, oracle, site, preds):
    return f"{prop}|{oracle}|{site}|" + ",".join(f"{k}={preds[k]}" for k in sorted(preds or {}))


class Ctx:
    def __init__(self, prop, tier, seed, shard, nshards, repo):
        self.prop, self.tier, self.seed, self.shard, self.nshards, self.repo = prop, tier, seed, shard, nshards, repo
        self.evals = Counter()
        self.fail_counts = Counter()
        self.fails = []
        self.distinct = set()
        self.cases = 0
        self.hist = defaultdict(Counter)
        self.notes = Counter()
        self.samples = []
        self.inconclusive = []
        self.t0 = time.time()
        self.current_case = None
        self.deadline = None
        self._guards = []   # [array, digest, label, case]: caller-owned data the observed code must leave unchanged
        self._retained = []  # [array, digest, label, case, age]: results of earlier calls that later calls must not change

    # ---- bookkeeping -------------------------------------------------------------------
    # ---- write sanitizer: caller-owned operands and earlier results (DESIGN 3.4) ---------
    @staticmethod
    def _arrays_of(obj, depth=0):
        out = []
        if isinstance(obj, np.ndarray):
            out.append(obj)
        elif isinstance(obj, (tuple, list)) and depth < 4:
            for x in obj:
                out.extend(Ctx._arrays_of(x, depth + 1))
        elif hasattr(obj, "flatten") and hasattr(obj, "_matmat"):
            try:
                out.extend(a for a in obj.flatten()[0] if isinstance(a, np.ndarray))
            except Exception:  # noqa  (an operator that cannot be flattened is simply not tracked)
                pass
        return out

    @staticmethod
    def _digest(a):
        return hashlib.blake2b(a.tobytes(), digest_size=12).hexdigest() + f"|{a.dtype}|{a.shape}"

    def guard(self, *objs, label="operand"):
        """Arrays (or the array leaves of operators) that belong to the caller: whatever is called while they are tracked must
        leave their bytes alone.  Tracked over the next two begin_case() calls (a monitor may build its operands before or
        after it announces the case); a change is attributed to the case that was running when it was noticed."""
        seen = {id(g[0]) for g in self._guards}
        for a in self._arrays_of(objs):
            if id(a) not in seen and a.size <= 4_000_000:
                self._guards.append([a, self._digest(a), label, 0])
                seen.add(id(a))

    def retain(self, *objs, label="result"):
        """Results handed back by an earlier call: they are the caller's from then on, later calls must not change them
        (re-verified at the start of the next three cases and by verify_guards())."""
        for a in self._arrays_of(objs):
            if a.size <= 4_000_000:
                self._retained.append([a, self._digest(a), label, 0])

    def scribble(self, arr, *owners):
        """The caller does what it likes with a result it was handed: overwrite it (NaN / -7) -- unless it is (a view of) one of
        the caller's own tracked operands, or of an array parameter of the operator(s) it came from (a Dense operator hands out
        the very matrix it wraps: documented aliasing, not a private result).  -> True when the array was overwritten."""
        if not isinstance(arr, np.ndarray) or arr.size == 0 or not arr.flags.writeable:
            return False
        if any(np.may_share_memory(arr, g[0]) for g in self._guards) or any(np.may_share_memory(arr, r[0]) for r in self._retained):
            return False
        if any(np.may_share_memory(arr, leaf) for leaf in self._arrays_of(owners)):
            return False
        arr[...] = np.nan if arr.dtype.kind in "fc" else -7
        return True

    def verify_guards(self, site="-", age=False):
        for g in self._guards:
            a, dg, label, _ = g
            now = self._digest(a)
            self.check("operands-left-unchanged", now == dg, site=site, preds={"what": label},
                       detail={"shape": list(a.shape), "dtype": str(a.dtype), "column_major": bool(a.flags.f_contiguous and not a.flags.c_contiguous)})
            g[1] = now  # (reported once)
        for r in self._retained:
            a, dg, label, n = r
            now = self._digest(a)
            self.check("earlier-results-left-unchanged", now == dg, site=site, preds={"what": label},
                       detail={"shape": list(a.shape), "dtype": str(a.dtype), "cases_later": n})
            r[1] = now
        if age:
            for g in self._guards:
                g[3] += 1
            self._guards = [g for g in self._guards if g[3] < 2]
            for r in self._retained:
                r[3] += 1
            self._retained = [r for r in self._retained if r[3] <= 3]

    def begin_case(self, case, sig=None, nontrivial=True):
        if self._guards or self._retained:
            self.verify_guards(site="after-the-case", age=True)
        self.cases += 1
        self.current_case = case
        if sig is not None and nontrivial:
            self.distinct.add(hashlib.md5(sig.encode()).hexdigest()[:12])
        if len(self.samples) < 3 and nontrivial:
            self.samples.append(jsonable(case))

    def count(self, hist, key, n=1):
        self.hist[hist][str(key)] += n

    def note(self, key, n=1):
        self.notes[key] += n

    def time_left(self):
        return None if self.deadline is None else self.deadline - time.time()

    # ---- the one way monitors report a judged observation ------------------------------
    def check(self, oracle, ok, site="-", preds=None, detail=None, case=None):
        """Record one oracle evaluation.  ok must be a plain bool computed by the monitor."""
        self.evals[oracle] += 1
        if ok:
            return True
        preds = dict(preds or {})
        fp = fingerprint(self.prop, oracle, site, preds)
        self.fail_counts[fp] += 1
        if len(self.fails) < MAX_FAIL_RECORDS or self.fail_counts[fp] == 1:
            self.fails.append({
                "fp": fp, "property": self.prop, "oracle": oracle, "site": site, "preds": jsonable(preds),
                "detail": jsonable(detail), "case": jsonable(case if case is not None else self.current_case),
                "tier": self.tier, "seed": self.seed, "shard": self.shard,
            })
        return False

    # ---- calling into the code under observation ----------------------------------------
    def call(self, fn, *a, **k):
        try:
            return fn(*a, **k)
        except Exception as e:  # noqa
            return Err(e, innermost_repo_frame(e, self.repo))

    def dump(self):
        if self._guards or self._retained:
            self.verify_guards(site="after-the-case", age=True)
        return {
            "prop": self.prop, "tier": self.tier, "seed": self.seed, "shard": self.shard,
            "evals": dict(self.evals), "fail_counts": dict(self.fail_counts), "fails": self.fails,
            "distinct": sorted(self.distinct), "cases": self.cases,
            "hist": {k: dict(v) for k, v in self.hist.items()}, "notes": dict(self.notes),
            "samples": self.samples, "inconclusive": self.inconclusive, "wall": time.time() - self.t0,
        }


def innermost_repo_frame(exc, repo):
    tb = traceback.extract_tb(exc.__traceback__)
    root = os.path.join(os.path.realpath(repo), "cola")
    for fr in reversed(tb):
        if os.path.realpath(fr.filename).startswith(root):
            return f"{os.path.relpath(os.path.realpath(fr.filename), os.path.realpath(repo))}:{fr.name}"
    return None


def shard_rng(seed, prop, shard, salt=0):
    h = hashlib.sha256(f"{seed}|{prop}|{shard}|{salt}".encode()).digest()
    return np.random.Generator(np.random.PCG64(int.from_bytes(h[:8], "big")))


def setup_repo(repo):
    """Import cola from `repo` (fresh interpreter => current working tree) and install the shim."""
    repo = os.path.realpath(repo)
    sys.path.insert(0, repo)
    import cola  # noqa
    if not os.path.realpath(cola.__file__).startswith(repo + os.sep):
        raise RuntimeError(f"cola imported from {cola.__file__}, not from {repo}")
    from harness import shim
    shim.install()
    return cola


def write_json(path, obj):
    tmp = path + ".tmp"
    with open(tmp, "w") as f:
        json.dump(obj, f, indent=1, sort_keys=True)
    os.replace(tmp, path)
