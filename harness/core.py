"""Shard-side context: event/evaluation log, failure records, coverage counters (DESIGN 3.5-3.8)."""
import hashlib
import json
import os
import sys
import time
import traceback
from collections import Counter, defaultdict

import numpy as np

MAX_FAIL_RECORDS = 60  # per shard; every failure is still *counted* per fingerprint


class Err:
    """An exception escaping a call into the code under observation (an event like any other)."""
    def __init__(self, exc, where):
        self.exc = exc
        self.type = type(exc).__name__
        self.msg = str(exc)[:300]
        self.where = where  # innermost frame inside the observed repository, or None

    def __repr__(self):
        return f"Err({self.type}: {self.msg[:120]} @ {self.where})"


def is_err(x):
    return isinstance(x, Err)


def jsonable(x, depth=0):
    if depth > 12:
        return "<deep>"
    if isinstance(x, (str, int, bool)) or x is None:
        return x
    if isinstance(x, float):
        return x if np.isfinite(x) else repr(x)
    if isinstance(x, complex):
        return {"re": jsonable(x.real), "im": jsonable(x.imag)}
    if isinstance(x, np.generic):
        return jsonable(x.item(), depth + 1)
    if isinstance(x, np.ndarray):
        if x.size <= 64:
            return jsonable(x.tolist(), depth + 1)
        return f"<array {x.shape} {x.dtype}>"
    if isinstance(x, dict):
        return {str(k): jsonable(v, depth + 1) for k, v in x.items()}
    if isinstance(x, (list, tuple, set, frozenset)):
        return [jsonable(v, depth + 1) for v in x]
    if isinstance(x, Err):
        return repr(x)
    if isinstance(x, type):
        return x.__name__
    return repr(x)[:200]


def fingerprint(prop, oracle, site, preds):
    return f"{prop}|{oracle}|{site}|" + ",".join(f"{k}={preds[k]}" for k in sorted(preds or {}))


class Ctx:
    def __init__(self, prop, tier, seed, shard, nshards, repo):
        self.prop, self.tier, self.seed, self.shard, self.nshards, self.repo = prop, tier, seed, shard, nshards, repo
        self.evals = Counter()
        self.fail_counts = Counter()
        self.fails = []
        self.distinct = set()
        self.cases = 0
        self.hist = defaultdict(Counter)
        self.notes = Counter()
        self.samples = []
        self.inconclusive = []
        self.t0 = time.time()
        self.current_case = None
        self.deadline = None

    # ---- bookkeeping -------------------------------------------------------------------
    def begin_case(self, case, sig=None, nontrivial=True):
        self.cases += 1
        self.current_case = case
        if sig is not None and nontrivial:
            self.distinct.add(hashlib.md5(sig.encode()).hexdigest()[:12])
        if len(self.samples) < 3 and nontrivial:
            self.samples.append(jsonable(case))

    def count(self, hist, key, n=1):
        self.hist[hist][str(key)] += n

    def note(self, key, n=1):
        self.notes[key] += n

    def time_left(self):
        return None if self.deadline is None else self.deadline - time.time()

    # ---- the one way monitors report a judged observation ------------------------------
    def check(self, oracle, ok, site="-", preds=None, detail=None, case=None):
        """Record one oracle evaluation.  ok must be a plain bool computed by the monitor."""
        self.evals[oracle] += 1
        if ok:
            return True
        preds = dict(preds or {})
        fp = fingerprint(self.prop, oracle, site, preds)
        self.fail_counts[fp] += 1
        if len(self.fails) < MAX_FAIL_RECORDS or self.fail_counts[fp] == 1:
            self.fails.append({
                "fp": fp, "property": self.prop, "oracle": oracle, "site": site, "preds": jsonable(preds),
                "detail": jsonable(detail), "case": jsonable(case if case is not None else self.current_case),
                "tier": self.tier, "seed": self.seed, "shard": self.shard,
            })
        return False

    # ---- calling into the code under observation ----------------------------------------
    def call(self, fn, *a, **k):
        try:
            return fn(*a, **k)
        except Exception as e:  # noqa
            return Err(e, innermost_repo_frame(e, self.repo))

    def dump(self):
        return {
            "prop": self.prop, "tier": self.tier, "seed": self.seed, "shard": self.shard,
            "evals": dict(self.evals), "fail_counts": dict(self.fail_counts), "fails": self.fails,
            "distinct": sorted(self.distinct), "cases": self.cases,
            "hist": {k: dict(v) for k, v in self.hist.items()}, "notes": dict(self.notes),
            "samples": self.samples, "inconclusive": self.inconclusive, "wall": time.time() - self.t0,
        }


def innermost_repo_frame(exc, repo):
    tb = traceback.extract_tb(exc.__traceback__)
    root = os.path.join(os.path.realpath(repo), "cola")
    for fr in reversed(tb):
        if os.path.realpath(fr.filename).startswith(root):
            return f"{os.path.relpath(os.path.realpath(fr.filename), os.path.realpath(repo))}:{fr.name}"
    return None


def shard_rng(seed, prop, shard, salt=0):
    h = hashlib.sha256(f"{seed}|{prop}|{shard}|{salt}".encode()).digest()
    return np.random.Generator(np.random.PCG64(int.from_bytes(h[:8], "big")))


def setup_repo(repo):
    """Import cola from `repo` (fresh interpreter => current working tree) and install the shim."""
    repo = os.path.realpath(repo)
    sys.path.insert(0, repo)
    import cola  # noqa
    if not os.path.realpath(cola.__file__).startswith(repo + os.sep):
        raise RuntimeError(f"cola imported from {cola.__file__}, not from {repo}")
    from harness import shim
    shim.install()
    return cola


def write_json(path, obj):
    tmp = path + ".tmp"
    with open(tmp, "w") as f:
        json.dump(obj, f, indent=1, sort_keys=True)
    os.replace(tmp, path)
