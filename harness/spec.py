"""Shape-directed random generator of operator-expression specs (DESIGN 3.2)."""
import numpy as np

REAL = ["f4", "f8"]
ALL_DT = ["f4", "f8", "c8", "c16"]

SQUARE_LEAVES = ["Triangular", "ScalarMul", "Identity", "Diagonal", "Tridiagonal", "Permutation", "Householder", "FFT",
                 "Hessian", "AnnotLeaf"]
ANY_LEAVES = ["Dense", "Sparse", "Generic", "Kernel", "Jacobian"]
COMPOSITES = ["Product", "Sum", "Kronecker", "KronSum", "BlockDiag", "Transpose", "Adjoint", "Sliced", "Concatenated",
              "NoDispatch"]


class Opts:
    def __init__(self, dtmode="f8", kinds=None, exclude=(), max_dim=12, clean=True, vias=("ctor", "fn"),
                 scalar_pool=None, leaf_gen="int", identity_dt=None, routines=0.0):
        self.dtmode = dtmode
        self.kinds = kinds
        self.exclude = set(exclude)
        self.max_dim = max_dim
        self.clean = clean  # avoid the input classes of open known findings (they are exercised separately)
        self.vias = vias
        self.scalar_pool = scalar_pool
        self.leaf_gen = leaf_gen
        # open finding (C01 Product/identity_factor): `A @ I` drops I, so an Identity *wider* than its co-factors does
        # not contribute to the dtype; workloads that are not about this pin Identity leaves to the narrowest dtype
        self.identity_dt = identity_dt
        # probability that a (small) leaf position is filled by the *result of a cola routine* on a well-conditioned argument
        # (lazy inverse / pseudo-inverse, matrix function, Cholesky factor, product of plu / svd factors): DESIGN 4.25
        self.routines = routines

    def ok(self, k):
        return (self.kinds is None or k in self.kinds) and k not in self.exclude


def pick(rng, seq):
    return seq[int(rng.integers(0, len(seq)))]


def seed(rng):
    return int(rng.integers(0, 2**31 - 1))


def leaf_dt(rng, o, real_only=False, cplx_only=False):
    if o.dtmode == "mixed":
        pool = ALL_DT
    elif o.dtmode == "mixed_real":
        pool = REAL
    elif o.dtmode == "mixed_cplx":
        pool = ["c8", "c16"]
    else:
        pool = [o.dtmode]
    if real_only:
        pool = [d for d in pool if d in REAL] or [{"c8": "f4", "c16": "f8"}.get(pool[0], "f8")]
    if cplx_only:
        pool = [d for d in pool if d not in REAL] or [{"f4": "c8", "f8": "c16"}.get(pool[0], "c16")]
    return pick(rng, pool)


def rand_scalar(rng, dt, o=None):
    pool = (o.scalar_pool if o is not None and o.scalar_pool else None)
    if pool is not None:
        return pick(rng, pool)
    r = int(rng.integers(0, 6))
    if r == 0:
        return int(rng.integers(-3, 4)) or 2
    if r == 1:
        return float(pick(rng, [-2.5, -1.0, 0.5, 1.5, 3.0]))
    if r == 2 and dt in ("c8", "c16"):
        return {"re": float(rng.integers(-2, 3)), "im": float(rng.integers(1, 3))}
    return float(rng.integers(-3, 4)) or -1.0


def slice_for(rng, big, want, allow_index=True, unique=False):
    """An index expression selecting `want` of `big` positions (slice with step, or an index array)."""
    r = int(rng.integers(0, 4 if allow_index else 3))
    if want == 0:
        return {"s": [1, 1, None]}
    if r == 0 or want > big:
        start = int(rng.integers(0, big - want + 1))
        return {"s": [start, start + want, None]}
    if r == 1:
        step = max(1, (big - 1) // max(want - 1, 1)) if want > 1 else 1
        step = int(rng.integers(1, step + 1))
        start = int(rng.integers(0, big - (want - 1) * step))
        return {"s": [start, start + (want - 1) * step + 1, step]}
    if r == 2:  # negative step
        step = max(1, (big - 1) // max(want - 1, 1)) if want > 1 else 1
        step = int(rng.integers(1, step + 1))
        lo = int(rng.integers(0, big - (want - 1) * step))
        hi = lo + (want - 1) * step
        stop = lo - 1 if lo - 1 >= 0 else None
        return {"s": [hi, stop, -step]}
    idx = rng.permutation(big)[:want] if (unique or rng.random() < 0.7) else rng.integers(0, big, size=want)
    return {"i": [int(i) for i in idx]}


def factorize(rng, n, nf):
    """Random ordered factorisation of n into nf positive factors (None if impossible with all > 1 ... we allow 1s
    only when unavoidable)."""
    fs = [1] * nf
    rem = n
    primes = []
    d = 2
    while d * d <= rem:
        while rem % d == 0:
            primes.append(d)
            rem //= d
        d += 1
    if rem > 1:
        primes.append(rem)
    for p in primes:
        fs[int(rng.integers(0, nf))] *= p
    return fs


def partition(rng, total, mults, tries=30):
    """positive sizes s_i with sum(mults_i * s_i) == total, or None."""
    b = len(mults)
    if sum(mults) > total:
        return None
    for _ in range(tries):
        s = [1] * b
        rem = total - sum(mults)
        order = list(rng.permutation(b))
        for i in order:
            if rem <= 0:
                break
            q = rem // mults[i]
            if q > 0:
                add = int(rng.integers(0, q + 1))
                s[i] += add
                rem -= add * mults[i]
        if rem == 0:
            return s
    return None


def gen_leaf(rng, m, n, o):
    if o.routines and rng.random() < o.routines and min(m, n) >= 1 and max(m, n) <= 6 and abs(m - n) <= 2:
        from harness import wellcond as W
        dt = leaf_dt(rng, o)
        if m == n:
            return W.gen_routine(rng, dt, n)
        return W.gen_routine(rng, dt, min(m, n), fns=["pinv"], shape=[m, n])
    cands = [k for k in ANY_LEAVES if o.ok(k)]
    if m == n:
        cands += [k for k in SQUARE_LEAVES if o.ok(k)]
    if not cands:
        cands = ["Dense"]
    for _ in range(20):
        k = pick(rng, cands)
        node = _leaf(rng, k, m, n, o)
        if node is not None:
            return node
    return {"k": "Dense", "shape": [m, n], "dt": leaf_dt(rng, o), "seed": seed(rng)}


def _leaf(rng, k, m, n, o):
    if k == "Dense":
        nd = {"k": "Dense", "shape": [m, n], "dt": leaf_dt(rng, o), "seed": seed(rng), "via": pick(rng, o.vias)}
        if o.leaf_gen != "int":
            nd["gen"] = o.leaf_gen
        return nd
    if k == "Generic":
        nd = {"k": "Generic", "shape": [m, n], "dt": leaf_dt(rng, o), "seed": seed(rng)}
        if m == n and m > 1 and rng.random() < 0.12:
            nd["gen"] = "flip"  # matrix-free exchange operator whose product returns a view of its operand
        return nd
    if k == "Sparse":
        nnz = int(rng.integers(0, max(2, (m * n) // 2 + 1)))
        clean = o.clean or rng.random() < 0.5
        return {"k": "Sparse", "shape": [m, n], "dt": leaf_dt(rng, o), "seed": seed(rng), "nnz": nnz,
                "sorted": True if clean else bool(rng.random() < 0.5), "dups": False if clean else bool(rng.random() < 0.5)}
    if k == "Kernel":
        dt = leaf_dt(rng, o, real_only=True)
        if o.clean:
            if m != n:
                return None
            bs1 = pick(rng, [d for d in range(1, m + 1)])
            bs2 = pick(rng, [d for d in range(1, n + 1)])
        else:
            bs1, bs2 = int(rng.integers(1, m + 3)), int(rng.integers(1, n + 3))
        return {"k": "Kernel", "n1": m, "n2": n, "d": 2, "dt": dt, "seed": seed(rng), "fn": pick(rng, ["lin", "rbf", "poly"]),
                "bs1": bs1, "bs2": bs2}
    if k == "Jacobian":
        return {"k": "Jacobian", "shape": [m, n], "dt": leaf_dt(rng, o, real_only=True), "seed": seed(rng)}
    # square leaves
    if k == "Triangular":
        return {"k": "Triangular", "n": n, "dt": leaf_dt(rng, o), "seed": seed(rng), "lower": bool(rng.random() < 0.5)}
    if k == "ScalarMul":
        dt = leaf_dt(rng, o)
        return {"k": "ScalarMul", "n": n, "dt": dt, "c": rand_scalar(rng, dt, o)}
    if k == "Identity":
        return {"k": "Identity", "n": n, "dt": o.identity_dt or leaf_dt(rng, o)}
    if k == "Diagonal":
        return {"k": "Diagonal", "n": n, "dt": leaf_dt(rng, o), "seed": seed(rng)}
    if k == "Tridiagonal":
        return {"k": "Tridiagonal", "n": n, "dt": leaf_dt(rng, o), "seed": seed(rng)}
    if k == "Permutation":
        return {"k": "Permutation", "perm": [int(i) for i in rng.permutation(n)], "dt": leaf_dt(rng, o)}
    if k == "Householder":
        return {"k": "Householder", "n": n, "dt": leaf_dt(rng, o), "seed": seed(rng), "beta": pick(rng, [2.0, 1.0, 0.5])}
    if k == "FFT":
        return {"k": "FFT", "n": n, "dt": leaf_dt(rng, o, cplx_only=True)}
    if k == "Hessian":
        return {"k": "Hessian", "n": n, "dt": leaf_dt(rng, o, real_only=True), "seed": seed(rng)}
    if k == "AnnotLeaf":
        dt = leaf_dt(rng, o)
        name = pick(rng, ["SelfAdjoint", "PSD", "Unitary"])
        g = {"SelfAdjoint": "herm", "PSD": "psd_int", "Unitary": "orth"}[name]
        return {"k": "Annot", "name": name,
                "arg": {"k": "Dense", "shape": [n, n], "dt": dt, "seed": seed(rng), "gen": g}}
    raise ValueError(k)


def gen_tree(rng, depth, o, shape=None):
    """Random spec of nesting depth <= depth representing a matrix of the given (or a random) shape."""
    if shape is None:
        r = rng.random()
        if r < 0.45:
            m = n = int(rng.integers(1, o.max_dim + 1))
        elif r < 0.6:
            m, n = 1, int(rng.integers(1, o.max_dim + 1))
            if rng.random() < 0.5:
                m, n = n, m
        elif r < 0.7:
            m = int(rng.integers(1, 3))
            n = int(rng.integers(8 * m + 1, 8 * m + 6))  # wide: 8*rows < cols (other densification branch)
        else:
            m, n = int(rng.integers(1, o.max_dim + 1)), int(rng.integers(1, o.max_dim + 1))
    else:
        m, n = shape
    if depth <= 0 or rng.random() < 0.12:
        return gen_leaf(rng, m, n, o)
    cands = [k for k in COMPOSITES if o.ok(k)]
    for _ in range(12):
        k = pick(rng, cands)
        node = _composite(rng, k, m, n, depth, o)
        if node is not None:
            return node
    return gen_leaf(rng, m, n, o)


def _composite(rng, k, m, n, depth, o):
    node = _composite0(rng, k, m, n, depth, o)
    if node is not None and k in ("BlockDiag", "Kronecker", "KronSum", "Concatenated", "Product") and len(node.get("args", ())) >= 3 \
            and not node.get("share") and rng.random() < 0.35:
        # the very same operator object in two (not necessarily adjacent) positions: X, Y, X
        from harness.refmodel import shape_of
        args = node["args"]
        shp = [shape_of(a) for a in args]
        pairs = [(i, j) for i in range(len(args)) for j in range(i + 1, len(args)) if shp[i] == shp[j]]
        if pairs:
            i, j = pairs[-1] if rng.random() < 0.7 else pairs[0]
            node["args"] = [args[i] if t == j else a for t, a in enumerate(args)]
            node["share"] = True
    return node


def _composite0(rng, k, m, n, depth, o):
    d = depth - 1
    via = pick(rng, o.vias)
    if k == "Product":
        nf = int(rng.integers(2, 4))
        dims = [m] + [int(rng.integers(1, o.max_dim + 1)) for _ in range(nf - 1)] + [n]
        args = [gen_tree(rng, d, o, (dims[i], dims[i + 1])) for i in range(nf)]
        if via == "fn":
            # open finding (C01, Product/identity_factor): A @ I drops the Identity, so an Identity *wider* than every
            # other factor does not contribute to the dtype; the clean workload keeps Identity factors narrow
            # (I.T, I.H and an annotated I are still Identity objects)
            for a in args:
                b = a
                while b["k"] == "Annot" or (b["k"] in ("Transpose", "Adjoint") and b.get("via") == "fn"):
                    b = b["arg"]
                if b["k"] == "Identity":
                    b["dt"] = "f4"
        if o.clean and len(args) == 2:
            # open finding (C05, Product has_scalar_factor): a Product of a ScalarMul and ONE other factor inherits that factor's
            # annotations whatever the scalar; with a complex scalar next to a self-adjoint factor (Identity, ...) `.H` then
            # returns the operator itself.  The clean workload keeps such scalars real.
            for a in args:
                if a["k"] == "ScalarMul" and isinstance(a.get("c"), dict):
                    a["c"] = float(a["c"].get("re") or 2.0)
        return {"k": "Product", "via": via, "args": args}
    if k == "Sum":
        nf = int(rng.integers(2, 4))
        args = [gen_tree(rng, d, o, (m, n)) for _ in range(nf)]
        if rng.random() < 0.15:  # the same operator object twice (A + B + A)
            return {"k": "Sum", "via": via, "share": True, "args": args + [args[0]]}
        return {"k": "Sum", "via": via, "args": args}
    if k == "Kronecker":
        if m * n == 1:
            return None
        nf = int(rng.integers(2, 5)) if m * n >= 16 else 2
        ms, ns = factorize(rng, m, nf), factorize(rng, n, nf)
        if sum(1 for a, b in zip(ms, ns) if a * b > 1) < 2:
            return None
        return {"k": "Kronecker", "via": "fn-right" if (via == "fn" and rng.random() < 0.4) else via,
                "args": [gen_tree(rng, min(d, 1), o, (a, b)) for a, b in zip(ms, ns)]}
    if k == "KronSum":
        if m != n or n < 4:
            return None
        nf = 2 if n < 8 else int(rng.integers(2, 4))
        ns = factorize(rng, n, nf)
        if sum(1 for a in ns if a > 1) < 2:
            return None
        return {"k": "KronSum", "via": "fn-right" if (via == "fn" and rng.random() < 0.4) else via,
                "args": [gen_tree(rng, min(d, 1), o, (a, a)) for a in ns]}
    if k == "BlockDiag":
        b = int(rng.integers(1, 4))
        use_mult = rng.random() < 0.6
        mults = [int(rng.integers(1, 4)) for _ in range(b)] if use_mult else [1] * b
        if b == 1 and mults[0] == 1:
            mults[0] = 2
            use_mult = True
        ms, ns = partition(rng, m, mults), partition(rng, n, mults)
        if ms is None or ns is None:
            return None
        node = {"k": "BlockDiag", "via": via, "args": [gen_tree(rng, min(d, 1), o, (a, c)) for a, c in zip(ms, ns)]}
        if use_mult:
            node["mult"] = mults
        return node
    if k in ("Transpose", "Adjoint"):
        return {"k": k, "via": via, "arg": gen_tree(rng, d, o, (n, m))}
    if k == "NoDispatch":
        return {"k": "NoDispatch", "arg": gen_tree(rng, d, o, (m, n))}
    if k == "Sliced":
        M, N = m + int(rng.integers(0, 4)), n + int(rng.integers(0, 4))
        allow_idx = True
        # open finding (Sliced, repeated_index): repeated entries of an index array; kept out of the clean workload
        s0, s1 = slice_for(rng, M, m, allow_idx, unique=o.clean), slice_for(rng, N, n, allow_idx, unique=o.clean)
        return {"k": "Sliced", "via": via, "slices": [s0, s1], "arg": gen_tree(rng, d, o, (M, N))}
    if k == "Concatenated":
        ax = int(rng.integers(0, 2))
        tot = m if ax == 0 else n
        if tot < 2:
            return None
        nf = int(rng.integers(2, min(3, tot) + 1))
        cuts = sorted(rng.choice(np.arange(1, tot), size=nf - 1, replace=False).tolist())
        parts = [b - a for a, b in zip([0] + cuts, cuts + [tot])]
        shapes = [(p, n) if ax == 0 else (m, p) for p in parts]
        return {"k": "Concatenated", "axis": ax, "args": [gen_tree(rng, d, o, s) for s in shapes]}
    raise ValueError(k)
