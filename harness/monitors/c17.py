"""C17 - randomised routines are deterministic in their key, leave the global state alone, Hutchinson is unbiased
(DESIGN 4/C17)."""
import hashlib
import pickle

import numpy as np

import cola
from harness import payload as P
from harness import spec as S
from harness.core import is_err
from harness.looptap import LOOPS

SIZES = {"quick": 40, "thorough": 800}
RNG_API = ["seed", "get_state", "set_state", "randn", "normal", "rand", "random", "random_sample", "standard_normal", "uniform",
           "randint", "choice", "permutation", "shuffle", "bytes"]


# ---- RNG tap: ordered event list of the numpy.random module-level API + keyed draws of np_fns -----------------------------
class RngTap:
    def __init__(self):
        self.installed = False
        self.events = []
        self.probes = []
        self.on = False

    def install(self):
        if self.installed:
            return
        from cola.backends import np_fns
        tap = self
        for name in RNG_API:
            orig = getattr(np.random, name)

            def wrapped(*a, _orig=orig, _name=name, **k):
                out = _orig(*a, **k)
                if tap.on:
                    ev = {"api": _name}
                    if _name == "get_state":
                        ev["state"] = state_digest(out)
                    if _name == "set_state":
                        ev["state"] = state_digest(a[0])
                    if _name == "seed":
                        ev["arg"] = a[0] if a else None
                    tap.events.append(ev)
                return out

            setattr(np.random, name, wrapped)
        orig_randn = np_fns.randn

        def randn(*shape, dtype=None, device=None, key=None):
            z = orig_randn(*shape, dtype=dtype, device=device, key=key)
            if tap.on:
                tap.probes.append({"key": key, "z": np.array(z, copy=True)})
            return z

        np_fns.randn = randn
        # np_fns.normal was bound to numpy.random.normal at import time: tap it as well
        orig_normal = np_fns.normal

        def normal(*a, **k):
            if tap.on:
                tap.events.append({"api": "np_fns.normal(unkeyed)"})
            return orig_normal(*a, **k)

        np_fns.normal = normal
        self.installed = True

    def start(self):
        self.events, self.probes, self.on = [], [], True

    def stop(self):
        self.on = False
        return self.events, self.probes


TAP = RngTap()


def state_digest(st):
    return hashlib.sha256(pickle.dumps((st[0], np.asarray(st[1]).tobytes(), st[2], st[3], st[4]))).hexdigest()[:16]


def global_digest():
    return state_digest(np.random.get_state())


def trace_ok(events):
    """(get_state . seed(key) . draw* . set_state(saved))*  -- any draw outside a bracket, a seed without the matching
    restore, or a restore of a different state is a violation."""
    i, n = 0, len(events)
    while i < n:
        if events[i]["api"] != "get_state":
            return False, f"event {i}: {events[i]['api']} outside a save/restore bracket"
        saved = events[i]["state"]
        if i + 1 >= n or events[i + 1]["api"] != "seed":
            return False, f"event {i + 1}: expected seed(key) after get_state"
        j = i + 2
        while j < n and events[j]["api"] in ("randn", "normal", "standard_normal", "rand", "random", "uniform"):
            j += 1
        if j >= n or events[j]["api"] != "set_state":
            return False, f"event {j}: bracket not closed by set_state"
        if events[j]["state"] != saved:
            return False, f"event {j}: set_state restores a different state than the one saved"
        i = j + 1
    return True, None


def out_hash(x):
    h = hashlib.sha256()

    def rec(y):
        if isinstance(y, (tuple, list)):
            for t in y:
                rec(t)
        elif isinstance(y, dict):
            for k in sorted(y):
                if k not in ("iteration_time", ):
                    rec(y[k])
        elif hasattr(y, "to_dense"):
            rec(np.asarray(y.to_dense()))
        elif isinstance(y, np.ndarray) or np.isscalar(y):
            a = np.asarray(y)
            h.update(str((a.dtype.str, a.shape)).encode())
            h.update(np.ascontiguousarray(a).tobytes())
        else:
            h.update(repr(type(y)).encode())

    rec(x)
    return h.hexdigest()


# ---- workload ---------------------------------------------------------------------------------------------------------
ROUTINES = ["hutch", "hutch", "diag_hutch", "trace_hutch", "slq", "lanczos_default", "arnoldi_default", "power_iteration", "nystrom",
            "randomized_svd", "lobpcg"]


def gen(tier, rng, shard, nshards):
    if shard < 4:
        # draws of more than 2**20 numbers in one request (a probe block for an operator with more than 10486 rows; a start
        # vector longer than 2**20): chunked or otherwise special-cased generation must still leave the global state alone
        yield {"mode": "routine", "routine": ["hutch_big", "lanczos_big", "hutch_big", "arnoldi_big"][shard], "seed": S.seed(rng),
               "key": int(rng.integers(0, 2**31 - 1)), "n": 3, "k": 0, "rand": S.pick(rng, ["normal", "rademacher"]), "max_iters": 1, "tol": 0.5}
    for i in range(SIZES[tier]):
        r = rng.random()
        if r < 0.45:
            yield {"mode": "routine", "routine": S.pick(rng, ROUTINES), "seed": S.seed(rng), "key": int(rng.integers(0, 2**31 - 1)),
                   "n": int(S.pick(rng, [3, 5, 8, 12, 30])), "k": int(S.pick(rng, [0, 0, 1, -1, 2, -2])), "rand": S.pick(rng, ["normal", "rademacher"]),
                   "max_iters": int(S.pick(rng, [1, 2, 5, 20])), "tol": float(S.pick(rng, [0.5, 0.05, 2e-3]))}
        elif r < 0.52:
            yield {"mode": "shared-alg-object", "kind": S.pick(rng, ["Kronecker", "Kronecker", "Kronecker3", "BlockDiag", "Sum", "Generic"]), "seed": S.seed(rng),
                   "key": int(rng.integers(0, 2**31 - 1)), "n": int(S.pick(rng, [2, 3, 4])), "n2": int(S.pick(rng, [2, 3])), "fn": S.pick(rng, ["diag", "trace"]),
                   "rand": S.pick(rng, ["normal", "rademacher"]), "max_iters": int(S.pick(rng, [1, 2, 5]))}
        elif r < 0.7:
            # histories of user draws, reseeds and cola calls
            L = int(rng.integers(2, 9))
            acts = [S.pick(rng, ["draw", "draw", "seed", "cola", "cola", "cola"]) for _ in range(L)]
            yield {"mode": "history", "actions": acts, "seed": S.seed(rng), "routines": [S.pick(rng, ROUTINES) for _ in acts],
                   "keys": [int(rng.integers(0, 2**31 - 1)) for _ in acts], "n": int(S.pick(rng, [4, 7, 10]))}
        elif r < 0.9:
            yield {"mode": "hutch-formula", "seed": S.seed(rng), "key": int(rng.integers(0, 2**31 - 1)), "n": int(S.pick(rng, [2, 3, 6, 10, 101, 130])),
                   "k": int(S.pick(rng, [0, 0, 1, -1, 3, -3])), "rand": S.pick(rng, ["normal", "rademacher"]), "max_iters": int(S.pick(rng, [1, 2, 3, 7])),
                   "dt": S.pick(rng, ["f8", "f8", "c16"]), "kind": S.pick(rng, ["Dense", "Diagonal", "Dense"]),
                   "via": S.pick(rng, ["function", "function", "Hutch-object"]), "annot": S.pick(rng, [None, None, "PSD", "SelfAdjoint"]),
                   "form": S.pick(rng, [None, None, None, "H-product", "T-product", "H-sum", "T-sum", "H-triinv", "H-generic", "H-kron"])}
        else:
            yield {"mode": "hutch-bias", "seed": S.seed(rng), "n": int(S.pick(rng, [3, 5, 8])), "k": int(S.pick(rng, [0, 1, -1])),
                   "rand": S.pick(rng, ["normal", "rademacher"])}


def make_operator(n, seed, dt="f8", sym=True):
    rng = P.rng_for("c17", seed, n)
    G = rng.standard_normal((n, n))
    if dt in P.CPLX:
        G = G + 1j * rng.standard_normal((n, n))
    M = G @ G.conj().T / n + np.eye(n) if sym else G
    return M.astype(P.DT[dt])


def call_routine(name, M, key, case):
    """-> output (anything hashable by out_hash).  Every call builds a fresh operator from the same matrix."""
    from cola import linalg as L
    n = M.shape[0]
    A = cola.ops.Dense(M.copy())
    if name == "hutch_big":
        from cola.linalg.trace.diagonal_estimation import hutchinson_diag_estimate
        D = cola.ops.Diagonal(np.linspace(1.0, 2.0, 12001))
        return hutchinson_diag_estimate(D, k=0, bs=100, tol=0.5, max_iters=1, rand=case.get("rand", "normal"), key=key)[0]
    if name in ("lanczos_big", "arnoldi_big"):
        D = cola.ops.Diagonal(np.linspace(1.0, 2.0, (1 << 20) + 5))
        if name == "lanczos_big":
            from cola.linalg.decompositions.lanczos import lanczos
            Q, T, _ = lanczos(cola.SelfAdjoint(D), max_iters=2, key=key)
            return Q, T
        from cola.linalg.decompositions.arnoldi import arnoldi
        Q, H, _ = arnoldi(D, max_iters=2, key=key)
        return Q, H
    if name == "hutch":
        from cola.linalg.trace.diagonal_estimation import hutchinson_diag_estimate
        k = case.get("k", 0) if abs(case.get("k", 0)) < n else 0
        return hutchinson_diag_estimate(A, k=k, tol=max(case.get("tol", 0.05), 2e-3), max_iters=case.get("max_iters", 3), rand=case.get("rand", "normal"),
                                        key=key)[0]
    if name == "diag_hutch":
        return L.diag(A, 0, L.Hutch(key=key, max_iters=case.get("max_iters", 3), tol=0.05))
    if name == "trace_hutch":
        return L.trace(A, L.Hutch(key=key, max_iters=case.get("max_iters", 3), tol=0.05, rand=case.get("rand", "normal")))
    if name == "slq":
        from cola.linalg.tbd.slq import stochastic_lanczos_quad
        return stochastic_lanczos_quad(cola.PSD(A), np.log, max_iters=min(n, 10), tol=1e-8, vtol=0.5, key=key)
    if name == "lanczos_default":
        from cola.linalg.decompositions.lanczos import lanczos
        Q, T, _ = lanczos(cola.SelfAdjoint(A), max_iters=min(n, 6), key=key)
        return Q, T
    if name == "arnoldi_default":
        from cola.linalg.decompositions.arnoldi import arnoldi
        Q, H, _ = arnoldi(A, max_iters=min(n, 6), key=key)
        return Q, H
    if name == "power_iteration":
        from cola.linalg.eig.power_iteration import power_iteration
        v, e, _ = power_iteration(A, tol=1e-6, max_iter=20, key=key)
        return v, e
    if name == "nystrom":
        from cola.linalg.preconditioning.preconditioners import NystromPrecond
        Pn = NystromPrecond(A, rank=max(1, min(3, n - 1)), key=key)
        return Pn @ np.eye(n)
    if name == "randomized_svd":
        from cola.linalg.tbd.randomized_svd import randomized_svd
        return randomized_svd(A, rank=max(1, min(3, n)))
    if name == "lobpcg":
        import warnings
        with warnings.catch_warnings():
            warnings.simplefilter("ignore")
            from cola.linalg.eig.lobpcg import lobpcg
            vals, V = lobpcg(cola.SelfAdjoint(A), max_iters=max(1, min(3, n - 1)))
        return vals, V
    raise ValueError(name)


def observed_call(ctx, name, M, key, case):
    """Run one routine under the taps -> (output|Err, events, probes, state digests before/after)."""
    TAP.install()
    before = global_digest()
    TAP.start()
    try:
        out = ctx.call(call_routine, name, M, key, case)
    finally:
        events, probes = TAP.stop()
    after = global_digest()
    return out, events, probes, before, after


def run_case(ctx, case):
    TAP.install()
    mode = case["mode"]
    ctx.count("mode", mode)
    if mode == "routine":
        return run_routine(ctx, case)
    if mode == "history":
        return run_history(ctx, case)
    if mode == "hutch-formula":
        return run_formula(ctx, case)
    if mode == "shared-alg-object":
        return run_shared(ctx, case)
    return run_bias(ctx, case)


def run_shared(ctx, case):
    """One caller-held Hutch object used for several estimates: the same object, operator and key give the same estimate
    every time, and the object still says what the caller wrote into it."""
    from cola import linalg as L
    n1, n2 = case["n"], int(case["n2"])
    M1, M2 = make_operator(n1, case["seed"]), make_operator(n2, case["seed"] + 1)
    ctx.begin_case(case, sig=f"shared|{case['kind']}|{n1}x{n2}|{case['fn']}|{case['rand']}", nontrivial=True)
    mf = lambda M: cola.ops.LinearOperator(M.dtype, M.shape, matmat=lambda X, M=M: M @ X)  # noqa (matrix-free: estimated, not read off)
    kind = case["kind"]
    if kind == "Kronecker":
        A = cola.ops.Kronecker(mf(M1), mf(M2))
    elif kind == "Kronecker3":
        A = cola.ops.Kronecker(mf(M1), cola.ops.Dense(M2), mf(M1))
    elif kind == "BlockDiag":
        A = cola.ops.BlockDiag(mf(M1), mf(M2), multiplicities=[2, 1])
    elif kind == "Sum":
        A = mf(M1) + cola.ops.Diagonal(np.diag(M1).copy())
    else:
        A = mf(M1)
    use_auto = case["seed"] % 3 == 0 and kind in ("Generic", "Sum")
    if use_auto:
        # one caller-held Auto(...) object with a loose tolerance (the automatic rule then picks the stochastic estimator) shared
        # by routines of different families: an eigenvalue request with the same object between two estimates
        alg = L.Auto(tol=0.3, max_iters=case["max_iters"], key=case["key"])
    else:
        alg = L.Hutch(key=case["key"], max_iters=case["max_iters"], tol=0.05, rand=case["rand"])
    said = dict(alg.__dict__)
    fn = (lambda: L.diag(A, 0, alg)) if case["fn"] == "diag" else (lambda: L.trace(A, alg))
    preds = {"kind": kind, "fn": case["fn"], "alg": type(alg).__name__}
    before = global_digest()
    out1 = ctx.call(fn)
    if use_auto:
        ctx.call(lambda: L.eigmax(cola.SelfAdjoint(A) if kind == "Generic" else A, alg))  # (may refuse; what matters is what it leaves behind)
        ctx.call(lambda: L.eig(A, 1, "LM", alg))
    out2 = ctx.call(fn)
    after = global_digest()
    if is_err(out1) or is_err(out2):
        ctx.check("returns", False, site="shared-alg-object", preds=preds, detail={"error": repr(out1 if is_err(out1) else out2)})
        return
    ctx.check("returns", True)
    ctx.check("same-key-bit-identical", out_hash(out1) == out_hash(out2), site="shared-alg-object", preds=preds,
              detail={"first": np.asarray(out1).ravel()[:4], "second": np.asarray(out2).ravel()[:4]})
    now = dict(alg.__dict__)
    ctx.check("algorithm-object-says-what-the-caller-wrote", now == said, site="shared-alg-object", preds=preds,
              detail={"before": {k: repr(v) for k, v in said.items()}, "after": {k: repr(v) for k, v in now.items()}})
    ctx.check("global-state-untouched", before == after, site="shared-alg-object", preds=preds, detail=None)
    fresh = ctx.call(lambda: L.diag(A, 0, type(alg)(**said)) if case["fn"] == "diag" else L.trace(A, type(alg)(**said)))
    if not is_err(fresh):
        ctx.check("same-key-bit-identical", out_hash(fresh) == out_hash(out1), site="shared-alg-object", preds=dict(preds, against="fresh-object"), detail=None)


def run_routine(ctx, case):
    name, n = case["routine"], case["n"]
    M = make_operator(n, case["seed"])
    ctx.begin_case(case, sig=f"routine|{name}|{n}|{case['k']}|{case['rand']}|{case['max_iters']}|{case['key'] % 7}", nontrivial=True)
    ctx.count("routine", name)
    preds = {"routine": name}
    np.random.seed(case["seed"] % (2**31))
    out1, ev1, pr1, b1, a1 = observed_call(ctx, name, M, case["key"], case)
    if is_err(out1):
        ctx.check("returns", False, site=name, preds=preds, detail={"error": repr(out1)})
        return
    ctx.check("returns", True)
    ctx.check("global-state-untouched", b1 == a1, site=name, preds=preds, detail={"before": b1, "after": a1})
    ok, why = trace_ok(ev1)
    ctx.check("rng-trace-well-bracketed", ok, site=name, preds=preds, detail={"why": why, "events": [e["api"] for e in ev1][:12]})
    ctx.count("rng_events", min(len(ev1), 50))
    ctx.note("keyed_draws_observed", len(pr1))
    # user activity in between: draws and a reseed must not change the keyed result
    np.random.rand(7)
    np.random.seed((case["seed"] * 7 + 1) % (2**31))
    np.random.standard_normal(3)
    out2, ev2, pr2, b2, a2 = observed_call(ctx, name, M, case["key"], case)
    same = (not is_err(out2)) and out_hash(out1) == out_hash(out2)
    ctx.check("same-key-bit-identical", bool(same), site=name, preds=preds, detail={"h1": out_hash(out1), "h2": None if is_err(out2) else out_hash(out2)})
    ctx.check("global-state-untouched", b2 == a2, site=name, preds=preds, detail={"before": b2, "after": a2})


def run_history(ctx, case):
    """Conservation: the user's own stream (draws interleaved with cola calls) equals the control stream drawn without
    the cola calls."""
    n = case["n"]
    M = make_operator(n, case["seed"])
    ctx.begin_case(case, sig="history|" + ",".join(a if a != "cola" else r for a, r in zip(case["actions"], case["routines"])), nontrivial=True)

    def play(with_cola):
        np.random.seed(case["seed"] % (2**31))
        drawn = []
        for a, r, k in zip(case["actions"], case["routines"], case["keys"]):
            if a == "draw":
                drawn.append(np.random.rand(3).tobytes())
            elif a == "seed":
                np.random.seed(k % (2**31))
            elif with_cola:
                out = ctx.call(call_routine, r, M, k, {"max_iters": 2})
                if is_err(out):
                    ctx.count("history_call_errors", out.type)
        drawn.append(np.random.rand(3).tobytes())
        return drawn

    control = play(False)
    withc = play(True)
    ctx.check("user-stream-conserved", control == withc, site="history", preds={"routines": ",".join(sorted(set(r for a, r in zip(case["actions"], case["routines"]) if a == "cola")))},
              detail={"actions": case["actions"], "routines": case["routines"]})


def reference_estimate(Mw, probes, k, n):
    """(1/N) sum_t (M z_t) * shifted z_t for the k-th diagonal, from the recorded probes."""
    acc = np.zeros(n - abs(k), dtype=complex)
    N = 0
    for z in probes:
        Az = Mw @ z
        for c in range(z.shape[1]):
            if k >= 0:
                acc += Az[:n - k, c] * z[k:, c]
            else:
                acc += Az[-k:, c] * z[:n + k, c]
            N += 1
    return acc / max(N, 1)


def run_formula(ctx, case):
    from cola.linalg.trace.diagonal_estimation import hutchinson_diag_estimate
    n, k, rand = case["n"], case["k"], case["rand"]
    if abs(k) >= n:
        k = 0
    M = make_operator(n, case["seed"], case["dt"], sym=bool(case.get("annot")))
    if case["kind"] == "Diagonal":
        M = np.diag(np.diag(M))
    ctx.begin_case(case, sig=f"formula|{n}|{k}|{rand}|{case['max_iters']}|{case['dt']}|{case['kind']}", nontrivial=True)
    preds = {"rand": rand, "k_class": "0" if k == 0 else ("+" if k > 0 else "-"), "complex": case["dt"] in P.CPLX, "kind": case["kind"]}
    A = cola.ops.Diagonal(np.diag(M).copy()) if case["kind"] == "Diagonal" else cola.ops.Dense(M)
    wrap = {"PSD": cola.PSD, "SelfAdjoint": cola.SelfAdjoint}.get(case.get("annot"), lambda op: op)
    if case.get("annot"):
        # a (truthfully) declared operator that still reaches the estimator: matrix-free, positive definite with off-diagonal
        # entries of both signs
        A = wrap(cola.ops.LinearOperator(M.dtype, M.shape, matmat=lambda X, M=M: M @ X))
        preds["declared"] = case["annot"]
    form = case.get("form")
    if form and not case.get("annot") and case["kind"] == "Dense" and n <= 12:
        # the operator handed to the estimator is a *view* (adjoint / transpose wrapper) of the output of another combinator or
        # routine: lazy Transpose / Adjoint objects of products, sums, Kronecker products, triangular inverses, matrix-free operators
        G1 = make_operator(n, case["seed"] + 1, case["dt"], sym=False)
        G2 = make_operator(n, case["seed"] + 2, case["dt"], sym=False)
        if form in ("H-product", "T-product"):
            base, Mb = cola.ops.Dense(G1) @ cola.ops.Dense(G2), G1 @ G2
        elif form in ("H-sum", "T-sum"):
            base, Mb = cola.ops.Dense(G1) + cola.ops.Diagonal(np.diag(G2).copy()), G1 + np.diag(np.diag(G2))
        elif form == "H-triinv":
            Tm = np.tril(G1) + n * np.eye(n)
            base, Mb = cola.linalg.inv(cola.ops.Triangular(Tm.astype(G1.dtype), lower=True)), np.linalg.inv(Tm)
        elif form == "H-kron" and n % 2 == 0:
            base, Mb = cola.ops.Kronecker(cola.ops.Dense(G1[:2, :2].copy()), cola.ops.Dense(G2[:n // 2, :n // 2].copy())), np.kron(G1[:2, :2], G2[:n // 2, :n // 2])
        else:
            base, Mb = cola.ops.LinearOperator(G1.dtype, G1.shape, matmat=lambda X, G1=G1: G1 @ X), G1
        A = base.H if form.startswith("H") else base.T
        M = (Mb.conj().T if form.startswith("H") else Mb.T).astype(M.dtype)
        preds["operator_form"] = form + ":" + type(A).__name__.split("[")[0]
        ctx.count("operator_form", preds["operator_form"])
        case = dict(case, via="function")
    TAP.start()
    LOOPS.install()
    LOOPS.start(hard_cap=case["max_iters"] + 5)
    via = case.get("via", "function")
    preds["via"] = via
    try:
        if via == "Hutch-object":
            # the same estimator reached through the public entry point with an algorithm object carrying every option
            # (a matrix-free operator: kinds with a structural diag rule never reach the estimator)
            from cola import linalg as L
            G = wrap(cola.ops.LinearOperator(M.dtype, M.shape, matmat=lambda X, M=M: M @ X))
            out = ctx.call(L.diag, G, k, L.Hutch(tol=2e-3, max_iters=case["max_iters"], rand=rand, key=case["key"]))
            out = out if is_err(out) else (out, )
        else:
            out = ctx.call(hutchinson_diag_estimate, A, k=k, tol=2e-3, max_iters=case["max_iters"], rand=rand, key=case["key"])
    finally:
        recs = LOOPS.stop()
        events, probes = TAP.stop()
    if is_err(out):
        ctx.check("returns", False, site="hutch", preds=preds, detail={"error": repr(out)})
        return
    est = np.asarray(out[0])
    zs = [np.sign(p["z"]) if rand == "rademacher" else p["z"] for p in probes]
    ctx.check("estimate-shape", est.shape == (n - abs(k), ), site="hutch", preds=preds, detail={"got": list(est.shape), "want": [n - abs(k)]})
    if est.shape != (n - abs(k), ):
        return
    steps = len(recs[0]["states"]) - 1 if recs else None
    ctx.check("iteration-cap", bool(recs and steps <= case["max_iters"]), site="hutch", preds=preds, detail={"steps": steps, "max_iters": case["max_iters"]})
    ctx.check("one-probe-block-per-step", bool(len(zs) == steps), site="hutch", preds=preds, detail={"probe_blocks": len(zs), "steps": steps})
    if not zs:
        return
    # distinct keys -> distinct probes (key advanced every iteration)
    keys = [p["key"] for p in probes]
    raw = [p["z"] for p in probes]  # (the raw normal draws: small Rademacher blocks can coincide by chance)
    ctx.check("key-advanced-between-iterations", len(set(keys)) == len(keys) and all(not np.array_equal(raw[i], raw[i + 1]) for i in range(len(raw) - 1)),
              site="hutch", preds=preds, detail={"keys": keys[:5]})
    if rand == "rademacher":
        ctx.check("rademacher-probes-are-pm1", bool(all(np.all(np.abs(z) == 1) for z in zs)), site="hutch", preds=preds, detail=None)
    Mw = M.astype(complex)
    ref = reference_estimate(Mw, [z.astype(complex) for z in zs], k, n)
    scale = np.abs(ref).max(initial=0.0) + np.abs(Mw).max() + 1e-300
    ctx.check("estimator-formula", bool(np.abs(est - ref).max(initial=0.0) <= 1e-9 * scale * max(n, 10)), site="hutch", preds=preds,
              detail={"got": est[:6], "recomputed": ref[:6]})
    if case["kind"] == "Diagonal" and rand == "rademacher" and k == 0:
        ctx.check("rademacher-exact-on-diagonal-operator", bool(np.allclose(est, np.diag(M), rtol=1e-12, atol=1e-12)), site="hutch", preds=preds,
                  detail={"got": est[:6], "want": np.diag(M)[:6]})
    # probe moments, 7 sigma with Bonferroni over entries (wide bands; everything is keyed, hence reproducible)
    Z = np.concatenate(zs, axis=1).real
    N = Z.shape[1]
    if N >= 100:
        mean_band = 7 / np.sqrt(N)
        cov = Z @ Z.T / N
        cov_band = 7 * np.sqrt(2.0 / N) + 7 / np.sqrt(N)
        ok = np.abs(Z.mean(1)).max() <= mean_band and np.abs(cov - np.eye(n)).max() <= cov_band
        ctx.check("probe-moments", bool(ok), site="hutch", preds=preds, detail={"max_mean": float(np.abs(Z.mean(1)).max()), "band": mean_band,
                                                                                     "max_cov_dev": float(np.abs(cov - np.eye(n)).max()), "cov_band": cov_band})


def run_bias(ctx, case):
    """Statistical: the mean of many single-iteration estimates with different keys is within 7 standard errors."""
    from cola.linalg.trace.diagonal_estimation import hutchinson_diag_estimate
    n, k, rand = case["n"], case["k"], case["rand"]
    if abs(k) >= n:
        k = 0
    M = make_operator(n, case["seed"], "f8", sym=False)
    ctx.begin_case(case, sig=f"bias|{n}|{k}|{rand}|{case['seed'] % 13}", nontrivial=True)
    A = cola.ops.Dense(M)
    ests = []
    for t in range(60):
        out = ctx.call(hutchinson_diag_estimate, A, k=k, tol=2e-3, max_iters=1, rand=rand, key=1000 * (case["seed"] % 1000) + t)
        if is_err(out):
            ctx.check("returns", False, site="hutch", preds={"rand": rand}, detail={"error": repr(out)})
            return
        ests.append(np.asarray(out[0]))
    E = np.array(ests)
    mean, se = E.mean(0), E.std(0, ddof=1) / np.sqrt(E.shape[0])
    want = np.diag(M, k)
    z = np.abs(mean - want) / np.maximum(se, 1e-12)
    ctx.check("unbiased-within-7-sigma", bool(np.all(z <= 7)), site="hutch", preds={"rand": rand, "k_class": "0" if k == 0 else ("+" if k > 0 else "-")},
              detail={"max_z": float(z.max()), "mean": mean[:5], "want": want[:5]})
