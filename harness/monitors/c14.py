"""C14 - Lanczos returns an orthonormal Krylov basis and the projected tridiagonal matrix (DESIGN 4/C14)."""
import numpy as np

import cola
from harness import payload as P
from harness import spec as S
from harness.core import is_err

SIZES = {"quick": 45, "thorough": 900}


def spectrum(rng, n, family):
    if family == "simple":
        lam = np.linspace(1.0, 3.0, n)
    elif family == "indefinite":
        lam = np.linspace(-2.0, 3.0, n) + 0.013
    elif family == "log-indefinite":
        lam = np.concatenate([-np.logspace(-3, 0, n // 2), np.logspace(-3, 1, n - n // 2)])
    elif family == "repeated":
        vals = np.array([1.0, 2.0, 3.5, -1.0])[:max(1, min(4, n))]
        lam = vals[np.arange(n) % len(vals)]
    elif family == "clustered":
        c = np.array([1.0, 2.0, 5.0])[:max(1, min(3, n))]
        lam = np.array([c[i % len(c)] * (1 + 1e-10 * (i // len(c))) for i in range(n)])
    else:
        raise ValueError(family)
    return np.sort(np.asarray(lam, dtype=float))


def gen(tier, rng, shard, nshards):
    big = [150, 200] if tier == "quick" else [150, 200, 300]
    for i in range(SIZES[tier]):
        n = int(S.pick(rng, [1, 2, 3, 5, 8, 12, 20, 30, 40, 60] + (big if rng.random() < 0.15 else [])))
        yield {"n": n, "dt": S.pick(rng, ["f8", "f8", "c16"]), "family": S.pick(rng, ["simple", "indefinite", "log-indefinite", "repeated", "clustered"]),
               "seed": S.seed(rng), "start": S.pick(rng, ["generic", "generic", "eigvec", "few-eigvecs", "default", "batched", "batched-mixed"]),
               "max_iters": S.pick(rng, ["1", "2", "n//2", "n-1", "n", "n+5", "default"]), "tol": float(S.pick(rng, [1e-12, 1e-12, 1e-8, 1e-5, 1e-3, 0.0, 1e-300])),
               "fn": S.pick(rng, ["lanczos", "lanczos", "lanczos", "lanczos_eigs", "Lanczos()"]),
               "scale": float(S.pick(rng, [1.0, 1.0, 1e6, 1e-6])), "real_start": bool(rng.random() < 0.3), "wide_start": bool(rng.random() < 0.25),
               "vscale": float(S.pick(rng, [1.0, 1.0, 1.0, 1e-12, 1e-30, 1e-9, 1e15])), "bwidth": S.pick(rng, ["3", "3", "2", "n"]),
               "narrow_op": bool(rng.random() < 0.15)}
        if rng.random() < 0.08:
            # hollow (bipartite) operators [[0, B], [B^H, 0]] with a start vector supported on the first block: the first Rayleigh
            # quotient is *exactly* zero, and the Krylov space is exhausted numerically (not exactly) after 2p < n steps
            p_, q_ = int(S.pick(rng, [1, 2, 3, 4])), int(S.pick(rng, [5, 6, 8]))
            yield {"n": p_ + q_, "p": p_, "dt": S.pick(rng, ["f8", "c16"]), "family": "bipartite", "seed": S.seed(rng), "start": S.pick(rng, ["block", "unit-vector"]),
                   "max_iters": S.pick(rng, ["n", "n+5", "default"]), "tol": float(S.pick(rng, [1e-8, 1e-6, 1e-5])),
                   "fn": S.pick(rng, ["lanczos", "lanczos", "lanczos_eigs", "Lanczos()"]), "scale": 1.0}
        if rng.random() < 0.12:
            # start vectors whose Krylov space is exhausted *exactly* (residual identically zero, not merely ~1e-16):
            # kernel vector of an integer graph Laplacian, the zero operator, a coordinate eigenvector of a diagonal matrix
            yield {"n": int(S.pick(rng, [3, 4, 6, 9, 12])), "dt": S.pick(rng, ["f8", "c16"]), "family": "exact-kernel", "seed": S.seed(rng),
                   "start": S.pick(rng, ["laplacian-ones", "zero-operator", "diagonal-coordinate", "identity-operator", "identity-operator", "exchange-operator"]), "max_iters": S.pick(rng, ["2", "n//2", "n", "n+5", "default"]),
                   "tol": float(S.pick(rng, [0.0, 1e-12, 1e-8, 1e-3])), "fn": S.pick(rng, ["lanczos", "lanczos_eigs", "Lanczos()"]), "scale": 1.0}


def build(case):
    n, dt = case["n"], case["dt"]
    rng = P.rng_for("c14", case["seed"])
    cplx = dt in P.CPLX
    if case["family"] == "exact-kernel":
        if case["start"] == "laplacian-ones":
            M = 2.0 * np.eye(n) - np.roll(np.eye(n), 1, axis=0) - np.roll(np.eye(n), -1, axis=0)  # cycle graph Laplacian
            v = np.ones(n)
        elif case["start"] == "zero-operator":
            M = np.zeros((n, n))
            v = rng.integers(1, 5, size=n).astype(float)
        elif case["start"] == "exchange-operator":
            # a matrix-free Hermitian operator whose product returns a *view* of its operand (the exchange matrix, X -> X[::-1]);
            # spectrum +-1, Krylov dimension 2
            case["tol"] = max(case["tol"], 1e-12)
            M = np.eye(n)[::-1].copy()
            v = rng.standard_normal(n) + (1j * rng.standard_normal(n) if cplx else 0)
            M, v = M.astype(P.DT[dt]), v.astype(P.DT[dt])
            mi = {"2": 2, "n//2": max(1, n // 2), "n": n, "n+5": n + 5, "default": None}[case["max_iters"]]
            return M, v, np.linalg.eigvalsh(M), 2, mi, None
        elif case["start"] == "identity-operator":
            # operators whose product hands its operand back (Identity and friends): the routine must not write into it.
            # (q^H q is 1 only up to rounding, so the residual is ~1e-16 q, not identically zero: tol = 0 is not admissible here)
            case["tol"] = max(case["tol"], 1e-12)
            M = np.eye(n)
            v = rng.standard_normal(n) + (1j * rng.standard_normal(n) if cplx else 0)
        else:
            M = np.diag(rng.permutation(np.arange(1, n + 1)).astype(float) - 2.0)
            v = np.zeros(n)
            v[int(rng.integers(0, n))] = 3.0
        M, v = M.astype(P.DT[dt]), v.astype(P.DT[dt])
        mi = {"2": 2, "n//2": max(1, n // 2), "n": n, "n+5": n + 5, "default": None}[case["max_iters"]]
        return M, v, np.linalg.eigvalsh(M), 1, mi, None
    if case["family"] == "bipartite":
        p_ = case["p"]
        Bm = rng.standard_normal((p_, n - p_)) + (1j * rng.standard_normal((p_, n - p_)) if cplx else 0)
        M = np.zeros((n, n), dtype=P.DT[dt])
        M[:p_, p_:] = Bm
        M[p_:, :p_] = Bm.conj().T
        v = np.zeros(n, dtype=P.DT[dt])
        if case["start"] == "unit-vector":
            v[int(rng.integers(0, p_))] = 1.0
        else:
            v[:p_] = rng.standard_normal(p_) + (1j * rng.standard_normal(p_) if cplx else 0)
        mi = {"n": n, "n+5": n + 5, "default": None}[case["max_iters"]]
        # Krylov dimension: 2 p for a generic block start, 2 rank-limited steps for a unit vector as well (generic B)
        return M, v, np.linalg.eigvalsh(M), 2 * p_, mi, None
    lam = spectrum(rng, n, case["family"])
    Q = P.haar(rng, n, cplx)
    M = (Q * lam) @ Q.conj().T
    M = ((M + M.conj().T) / 2).astype(P.DT[dt]) * case.get("scale", 1.0)
    lam = lam * case.get("scale", 1.0)
    d = None

    def vec(kind):
        nonlocal d
        if kind == "generic" or n == 1:
            return rng.standard_normal(n) + (1j * rng.standard_normal(n) if cplx else 0)
        k = 1 if kind == "eigvec" else int(rng.integers(2, min(4, n) + 1))
        # eigenvectors of *distinct* eigenvalues (so that the Krylov dimension is exactly k)
        uniq = np.unique(np.round(lam / case.get("scale", 1.0), 6), return_index=True)[1]
        idx = rng.choice(uniq, size=min(k, len(uniq)), replace=False)
        d = len(idx) if d is None else max(d, len(idx))
        return Q[:, idx] @ (1 + rng.random(len(idx)))
    st = case["start"]
    if st == "default":
        v = None
    elif st == "batched":
        # (the block may be square: as many start vectors as the operator has rows)
        v = np.stack([vec("generic") for _ in range({"2": 2, "3": 3, "n": n if 2 <= n <= 12 else 3}[case.get("bwidth", "3")])], axis=1)
    elif st == "batched-mixed":
        v = np.stack([vec("generic"), vec("eigvec"), vec("few-eigvecs")], axis=1)
        d = None
    else:
        v = vec(st)
    if v is not None:
        v = v.astype(P.DT[dt])
        if cplx and case.get("real_start") and st in ("generic", "batched"):
            v = np.ascontiguousarray(v.real)  # a real start vector for a complex Hermitian operator (narrower dtype than the operator)
        if not cplx and case.get("wide_start") and st in ("generic", "batched"):
            v = (v + 1j * rng.standard_normal(v.shape)).astype(np.complex128)  # a complex start vector for a real symmetric operator
        vs = float(case.get("vscale", 1.0))
        if vs != 1.0:
            # the factorisation depends on the direction of a start vector only, not on its length (mixed lengths inside a batch)
            fac = vs if v.ndim == 1 else np.array([vs, 1.0, 1.0 / vs if 1e-15 < vs < 1e15 else 1.0, vs, 1.0, vs, 1.0, vs, 1.0, vs, 1.0, vs][:v.shape[1]])[None, :]
            v = (v * fac).astype(v.dtype)
    mi = {"1": 1, "2": 2, "n//2": max(1, n // 2), "n-1": max(1, n - 1), "n": n, "n+5": n + 5, "default": None}[case["max_iters"]]
    return M, v, lam, d, mi, Q


def krylov_basis(M, v, m):
    """Orthonormal basis of K_j(A, v), j = 1..m, with full double re-orthogonalisation; stops when exhausted."""
    Qs = [v / np.linalg.norm(v)]
    for j in range(m - 1):
        w = M @ Qs[-1]
        nw0 = np.linalg.norm(w)
        for _ in range(2):
            for q in Qs:
                w = w - q * np.vdot(q, w)
        # the comparison of Krylov *spaces* is only well conditioned while each new direction is a sizeable part of
        # A q_j; "numerically full rank" ends at the first direction below 1e-3 ||A q_j||
        if np.linalg.norm(w) <= 1e-3 * max(nw0, 1e-300):
            break
        Qs.append(w / np.linalg.norm(w))
    return np.array(Qs).T


def judge_one(ctx, case, M, v, Q, T, lam, d, mi, preds, tol_run):
    """One (unbatched) factorisation: Q (n, k), T (k, k) dense arrays, start vector v."""
    n = M.shape[0]
    normA = max(np.linalg.norm(M, 2), 1e-300)
    eps = 2.3e-16
    k = Q.shape[1]
    cap = n if mi is None else min(mi, n)
    ctx.check("column-count", bool(1 <= k <= cap and T.shape == (k, k) and Q.shape[0] == n), site="lanczos", preds=preds,
              detail={"k": k, "cap": cap, "T": list(T.shape), "Q": list(Q.shape)})
    if not (1 <= k <= cap and T.shape == (k, k) and Q.shape[0] == n):
        return
    if not (np.all(np.isfinite(Q)) and np.all(np.isfinite(T))):
        ctx.check("finite", False, site="lanczos", preds=preds, detail={"k": k})
        return
    ctx.check("finite", True)
    colnorm = np.linalg.norm(Q, axis=0)
    live = colnorm > 0.5  # exhausted batch columns are frozen at zero: harmless, not judged for orthonormality
    kl = int(np.sum(live))
    Ql = Q[:, live]
    ctx.check("orthonormal", bool(np.abs(Ql.conj().T @ Ql - np.eye(kl)).max(initial=0.0) <= 1e-12), site="lanczos", preds=preds,
              detail={"dev": float(np.abs(Ql.conj().T @ Ql - np.eye(kl)).max(initial=0.0)), "k": k, "live": kl})
    if "batch_col" not in preds:
        # a single start vector: every returned column is a basis vector (only batched runs have to keep frozen zero columns
        # for the start vectors that finished earlier than the others)
        ctx.check("no-zero-columns-unbatched", bool(kl == k), site="lanczos", preds=preds, detail={"columns": k, "non_zero": kl})
    ctx.check("first-column", bool(np.linalg.norm(Q[:, 0] - v / np.linalg.norm(v)) <= 1e-13), site="lanczos", preds=preds,
              detail={"dev": float(np.linalg.norm(Q[:, 0] - v / np.linalg.norm(v)))})
    # T: real symmetric tridiagonal with non-negative off-diagonal
    tt = 1e3 * eps * normA * max(n, 4)
    off = T - np.triu(np.tril(T, 1), -1)
    sub = np.diag(T, -1)
    okT = np.abs(off).max(initial=0.0) <= tt and np.abs(np.imag(T)).max(initial=0.0) <= tt and \
        np.abs(T - T.conj().T).max(initial=0.0) <= tt and np.all(np.real(sub) >= -tt)
    ctx.check("T-real-symmetric-tridiagonal-nonneg", bool(okT), site="lanczos", preds=preds,
              detail={"outside_band": float(np.abs(off).max(initial=0.0)), "imag": float(np.abs(np.imag(T)).max(initial=0.0)),
                      "asym": float(np.abs(T - T.conj().T).max(initial=0.0)), "min_sub": float(np.real(sub).min(initial=0.0))})
    # projection and three-term relation, on the live leading block (a contiguous prefix)
    if kl >= 1 and np.all(live[:kl]):
        Tl = T[:kl, :kl]
        P1 = Ql.conj().T @ M @ Ql
        ctx.check("T-is-QH-A-Q", bool(np.abs(P1 - Tl).max() <= 1e3 * eps * normA * n + 10 * tol_run * normA * 0), site="lanczos", preds=preds,
                  detail={"dev": float(np.abs(P1 - Tl).max()), "normA": normA})
        Rm = M @ Ql - Ql @ Tl
        ctx.check("AQ-QT-vanishes-except-last-column", bool(np.abs(Rm[:, :-1]).max(initial=0.0) <= 1e3 * eps * normA * n), site="lanczos",
                  preds=preds, detail={"dev": float(np.abs(Rm[:, :-1]).max(initial=0.0))})
        # Krylov spaces: principal angles against the reference basis (while it is numerically full rank)
        K = krylov_basis(M, v.astype(np.result_type(M.dtype, v.dtype)), kl)
        kk = min(K.shape[1], kl)
        worst = 0.0
        for j in sorted(set([1, 2, max(1, kk // 2), kk])):
            if j > kk:
                continue
            S_ = K[:, :j].conj().T @ Ql[:, :j]
            worst = max(worst, 1 - np.linalg.svd(S_, compute_uv=False).min())
        # the tolerance is relative: with a tiny tolerance the iteration must not stop while the reference Krylov basis is
        # still well conditioned (every new direction >= 1e-3 ||A q_j||, nine orders above tol)
        if tol_run <= 1e-12 and preds.get("batch_col", "generic") == "generic" or (tol_run <= 1e-12 and "batch_col" not in preds):
            ctx.check("no-premature-stop", bool(kl >= min(cap, K.shape[1])), site="lanczos", preds=preds,
                      detail={"columns": kl, "cap": cap, "reference_rank": int(K.shape[1]), "scale": case.get("scale", 1.0)})
        # (log-spaced spectra with low-dimensional start vectors are numerically degenerate for a comparison of spaces:
        # recorded, not judged)
        if case["family"] == "log-indefinite" and (preds.get("batch_col", "generic") != "generic" or case["start"] in ("eigvec", "few-eigvecs")):
            ctx.note("spans_krylov_skipped_degenerate")
        else:
            ctx.check("spans-krylov-space", bool(worst <= 1e-8), site="lanczos", preds=preds, detail={"one_minus_cos": float(worst), "k": kl})
        # early termination when the Krylov space is exhausted at a known dimension d
        # exhaustion is only judged where it is numerically clean: O(1), well-separated eigenvalues (for the log-spaced
        # family the vanishing direction is buried in amplified rounding noise above any requested tolerance)
        # ... and only for tolerances above the rounding level of the vanishing direction (n eps ||A|| relative: with tol = 1e-12
        # and n = 40 the residual after exhaustion, ~1e-12, is not below tol and the routine rightly continues); the exactly
        # exhausted family (identically zero residual) is judged at every tolerance
        detectable = 1e-9 <= tol_run <= 1e-5 or (case["family"] == "exact-kernel" and tol_run <= 1e-5)
        if d is not None and cap >= d + 1 and detectable and case["family"] != "log-indefinite":
            ev = np.linalg.eigvalsh((Tl + Tl.conj().T) / 2)
            dist = [np.min(np.abs(lam - x)) for x in ev]  # every eigenvalue of T is an exact eigenvalue of A
            ctx.check("stops-when-exhausted", bool(kl <= d + 1), site="lanczos", preds=preds, detail={"columns": kl, "krylov_dim": d})
            exact = sorted(dist)
            ctx.check("eigenvalues-of-T-exact-after-exhaustion", bool(kl >= 1 and max(exact) <= 1e-8 * normA), site="lanczos", preds=preds,
                      detail={"dist": exact, "krylov_dim": d, "columns": kl})


def run_case(ctx, case):
    from cola.linalg import Lanczos
    from cola.linalg.decompositions.lanczos import lanczos, lanczos_eigs
    from cola.backends import np_fns
    M, v, lam, d, mi, Qtrue = build(case)
    n = M.shape[0]
    ctx.begin_case(case, sig="|".join(f"{k}={case[k]}" for k in ("n", "dt", "family", "start", "max_iters", "tol", "fn", "scale")), nontrivial=True)
    for key in ("family", "start", "max_iters", "fn"):
        ctx.count(key, case[key])
    A = cola.SelfAdjoint(cola.ops.Dense(M))
    if case.get("narrow_op") and case["start"] in ("generic", "batched") and case["family"] in ("simple", "indefinite", "clustered", "repeated") and v is not None:
        # an operator stored in single precision (or in an integer dtype) with a double-precision start vector: the
        # factorisation runs in the promoted (double) precision on the operator's stored *values* (which the reference uses too)
        if case["seed"] % 4 == 0 and not np.iscomplexobj(M) and case.get("scale", 1.0) == 1.0:
            Mn = np.round(M * 8).astype(np.int64)
            Mn = (Mn + Mn.T) // 2 * 2 // 2
            Mn = np.triu(Mn) + np.triu(Mn, 1).T
        else:
            Mn = M.astype(np.complex64 if np.iscomplexobj(M) else np.float32)
            Mn = ((Mn + Mn.conj().T) / 2).astype(Mn.dtype)
        M = Mn.astype(M.dtype)
        lam, Qtrue, d = np.linalg.eigvalsh(M), None, None
        A = cola.SelfAdjoint(cola.ops.Dense(Mn))
        ctx.count("operator_storage", str(Mn.dtype))
    if case["start"] == "exchange-operator":
        A = cola.SelfAdjoint(cola.ops.LinearOperator(M.dtype, M.shape, matmat=lambda X: X[::-1]))
    if case["start"] == "identity-operator":
        kind = ["Identity", "I_like", "SelfAdjoint(Identity)", "Kronecker(I,I)", "Identity.H"][case["seed"] % 5]
        I = cola.ops.Identity((n, n), M.dtype)
        if kind == "Kronecker(I,I)" and n % 3 == 0:
            A = cola.ops.Kronecker(cola.ops.Identity((3, 3), M.dtype), cola.ops.Identity((n // 3, n // 3), M.dtype))
        else:
            A = {"Identity": I, "I_like": cola.ops.I_like(cola.ops.Dense(M)), "SelfAdjoint(Identity)": cola.SelfAdjoint(I), "Identity.H": I.H}.get(kind, I)
        ctx.count("identity_kind", kind)
    preds = {"start": case["start"], "family": case["family"], "complex": np.iscomplexobj(M), "fn": case["fn"], "max_iters": case["max_iters"]}
    if v is not None and np.iscomplexobj(M) and not np.iscomplexobj(v):
        preds["start_narrower_than_operator"] = True
    if v is not None and not np.iscomplexobj(M) and np.iscomplexobj(v):
        preds["start_wider_than_operator"] = True
    kw = {"tol": case["tol"]}
    if mi is not None:
        kw["max_iters"] = P.count_form(mi, case["seed"] // 3)
    if v is None:
        kw["key"] = 11
        v_used = np_fns.randn(n, dtype=M.dtype, key=11)
    else:
        kw["start_vector"] = v
        v_used = v
    batched = v is not None and v.ndim == 2
    if case["fn"] == "lanczos_eigs" and not batched:
        out = ctx.call(lanczos_eigs, A, **kw)
        if is_err(out):
            ctx.check("returns", False, site="lanczos_eigs", preds=preds, detail={"error": repr(out)})
            return
        ctx.check("returns", True)
        vals, V, _ = out
        vals = np.asarray(vals)
        Vd = np.asarray(V.to_dense())
        ok_sorted = np.all(np.diff(vals.real) >= -1e-12) and np.abs(np.imag(vals)).max(initial=0.0) <= 1e-12
        ctx.check("ritz-values-ascending", bool(ok_sorted), site="lanczos_eigs", preds=preds, detail={"values": vals})
        # Ritz pairs of (Q, T): V^H A V = diag(vals), V orthonormal; with max_iters >= n they are eigenpairs
        k = len(vals)
        G = Vd.conj().T @ M @ Vd
        normA = max(np.linalg.norm(M, 2), 1e-300)
        ctx.check("ritz-pairs", bool(Vd.shape == (n, k) and np.abs(G - np.diag(vals)).max(initial=0.0) <= 1e-9 * normA and
                                     np.abs(Vd.conj().T @ Vd - np.eye(k)).max(initial=0.0) <= 1e-10), site="lanczos_eigs", preds=preds,
                  detail={"dev": float(np.abs(G - np.diag(vals)).max(initial=0.0)), "k": k})
        if (100 if mi is None else mi) >= n and case["family"] in ("simple", "indefinite") and case["tol"] <= 1e-8 and case["start"] in ("generic", "default"):
            res = np.linalg.norm(M @ Vd - Vd * vals[None, :], axis=0)
            ctx.check("full-run-gives-eigenpairs", bool(k == n and np.all(res <= 1e-7 * normA)), site="lanczos_eigs", preds=preds,
                      detail={"k": k, "n": n, "max_res": float(res.max(initial=0.0))})
        return
    if case["fn"] == "Lanczos()" and not batched:
        out = ctx.call(Lanczos(**kw), A)
    else:
        if case["seed"] % 3 == 0 and set(kw) == {"start_vector", "max_iters", "tol"}:  # documented positional form
            out = ctx.call(lanczos, A, kw["start_vector"], kw["max_iters"], kw["tol"])
        else:
            out = ctx.call(lanczos, A, **kw)
    if is_err(out):
        ctx.check("returns", False, site="lanczos", preds=preds, detail={"error": repr(out)})
        return
    ctx.check("returns", True)
    Qop, Top, info = out
    if case["seed"] % 2 == 0:
        # what a call returned is the caller's: a later call of the same shapes and dtypes (another operator, another start
        # vector) leaves it alone (hashed now, verified after the later call, before the factorisation is judged)
        ctx.retain(Qop, Top, label="lanczos-factorisation")
        M2_ = (M + np.eye(n)).astype(M.dtype)
        kw2 = dict(kw)
        if "start_vector" in kw2:
            kw2["start_vector"] = (np.asarray(kw2["start_vector"])[::-1] * 2).copy()
        ctx.call(lanczos, cola.SelfAdjoint(cola.ops.Dense(M2_)), **kw2)
        ctx.verify_guards(site="later-call-of-the-same-shapes")
    if not batched:
        judge_one(ctx, case, M, v_used, np.asarray(Qop.to_dense()), np.asarray(Top.to_dense()), lam, d, mi, preds, case["tol"])
        return
    Qb = np.asarray(Qop.to_dense())
    Tb = np.asarray(np_fns.vmap(type(Top).to_dense)(Top))
    ok = Qb.ndim == 3 and Tb.ndim == 3 and Qb.shape[0] == v.shape[1] == Tb.shape[0]
    ctx.check("batched-shapes", bool(ok), site="lanczos", preds=preds, detail={"Q": list(Qb.shape), "T": list(Tb.shape), "start": list(v.shape)})
    if not ok:
        return
    for i in range(Qb.shape[0]):
        dd = None
        if case["start"] == "batched-mixed":
            dd = {1: 1}.get(i)
        judge_one(ctx, case, M, v[:, i], Qb[i], Tb[i], lam, dd, mi, dict(preds, batch_col=("generic", "eigvec", "few")[i] if case["start"] == "batched-mixed" else "generic"),
                  case["tol"])
