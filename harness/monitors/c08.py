"""C08 - exact diag / trace return the true (off-)diagonal and trace (DESIGN 4/C08)."""
import numpy as np

import cola
from harness import build as B
from harness import refmodel as R
from harness import spec as S
from harness.core import is_err
from harness.looptap import LOOPS
from harness.probes import DISPATCH
from harness.treecheck import blame, leaf_preds

SIZES = {"quick": 220, "thorough": 5000}
BIG = [99, 100, 101, 150, 199, 200, 201, 230]
KINDS = ["Dense", "Identity", "Diagonal", "ScalarMul", "Sum", "BlockDiag", "Kronecker", "KronSum", "Product", "Generic",
         "NoDispatch", "Tridiagonal", "Triangular", "Transpose", "Permutation", "Sparse"]
OMIT = "omitted"


def gen(tier, rng, shard, nshards):
    for i in range(SIZES[tier]):
        dtm = S.pick(rng, ["f8", "f8", "c16", "f4", "mixed"])
        o = S.Opts(dtmode=dtm, clean=True, kinds=set(KINDS), max_dim=12, identity_dt="f4", routines=0.06)
        r = rng.random()
        if r < 0.12:  # sizes on both sides of (and not divisible by) the probing block
            n = int(S.pick(rng, BIG))
            kind = S.pick(rng, ["Dense", "Generic", "Diagonal", "Tridiagonal", "Sum", "Kronecker", "BlockDiag", "NoDispatch",
                                "Product"])
            if rng.random() < 0.25:
                # well beyond the block size: the automatic default (tolerance 1e-6) must still be the exact algorithm
                # (its switch to the stochastic estimator lies at n ~ 3e5)
                n, kind = int(S.pick(rng, [317, 330, 450])), S.pick(rng, ["Generic", "Product", "Sum", "NoDispatch"])
            node = big_node(rng, kind, n, dtm if dtm != "mixed" else "f8")
            ks = [0, 1, -1, n - 1, -(n - 1), 50, -50, 99, -99, 100, -100, 101, -101, n // 2, -(n // 3)]
            ks = [k for k in ks if -n < k < n]
            k = int(S.pick(rng, ks))
        else:
            n = int(S.pick(rng, [1, 2, 3, 4, 6, 7, 8, 9, 12]))
            node = S.gen_tree(rng, int(S.pick(rng, [0, 1, 1, 2, 2, 3])), o, (n, n))
            k = int(rng.integers(-n + 1, n)) if rng.random() < 0.7 else 0
        if r >= 0.12 and rng.random() < 0.09:
            # directed: composites whose parts get *wider* from left to right (an integer-dtype, single-precision or real first part
            # before double-precision / complex parts with quarter-integer entries): the result has the promoted dtype and the
            # later parts' values - whatever the first part's dtype would do to them
            wide = S.pick(rng, ["f8", "c16", "c16"])
            a_, b_ = int(rng.integers(1, 4)), int(rng.integers(1, 5))
            first = S.pick(rng, [{"k": "Dense", "shape": [a_, a_], "dt": "f8", "seed": S.seed(rng), "int_dtype": True},
                                 {"k": "Dense", "shape": [a_, a_], "dt": "f4", "seed": S.seed(rng)}, {"k": "Diagonal", "n": a_, "dt": "f4", "seed": S.seed(rng)},
                                 {"k": "Identity", "n": a_, "dt": "f4"}, {"k": "ScalarMul", "n": a_, "dt": "f4", "c": 2.0},
                                 {"k": "Dense", "shape": [a_, a_], "dt": "f8", "seed": S.seed(rng)}])
            later = lambda m: {"k": S.pick(rng, ["Dense", "Dense", "Generic"]), "shape": [m, m], "dt": wide, "seed": S.seed(rng), "unit": 0.25}  # noqa: E731
            form = S.pick(rng, ["BlockDiag", "BlockDiag", "BlockDiag3", "BlockDiagMult", "Kron(BlockDiag,.)", "Sum(BlockDiag,.)", "Sum", "Kronecker", "KronSum"])
            bd = {"k": "BlockDiag", "via": S.pick(rng, ["ctor", "fn"]), "args": [first, later(b_)]}
            node = {"BlockDiag": bd, "BlockDiag3": {"k": "BlockDiag", "via": "ctor", "args": [first, later(b_), later(int(rng.integers(1, 3)))]},
                    "BlockDiagMult": {"k": "BlockDiag", "via": "ctor", "mult": [int(rng.integers(1, 3)), int(rng.integers(1, 3))], "args": [first, later(b_)]},
                    "Kron(BlockDiag,.)": {"k": "Kronecker", "via": "ctor", "args": [bd, later(int(rng.integers(1, 3)))]},
                    "Sum(BlockDiag,.)": {"k": "Sum", "via": "ctor", "args": [bd, later(a_ + b_)]},
                    "Sum": {"k": "Sum", "via": S.pick(rng, ["ctor", "fn"]), "args": [first, later(a_)]},
                    "Kronecker": {"k": "Kronecker", "via": "ctor", "args": [first, later(b_)]},
                    "KronSum": {"k": "KronSum", "via": "ctor", "args": [first, later(b_)]}}[form]
            n = R.shape_of(node)[0]
            k = int(rng.integers(-n + 1, n)) if rng.random() < 0.5 else 0
        if r >= 0.12 and rng.random() < 0.07:
            # directed: the (off-)diagonals of what another routine returned - lazy inverses of triangular factors (each side of
            # the diagonal), of Cholesky factors, factor-wise inverses - alone, transposed, or as a summand
            from harness import wellcond as W
            n = int(S.pick(rng, [2, 3, 4, 5]))
            rt = W.direct_only(W.gen_routine_directed(rng, S.pick(rng, ["f8", "c16", "f4"]), n))
            node = S.pick(rng, [rt, rt, {"k": S.pick(rng, ["Transpose", "Adjoint"]), "via": S.pick(rng, ["ctor", "fn"]), "arg": rt},
                                {"k": "Sum", "via": "ctor", "args": [rt, {"k": "Dense", "shape": [n, n], "dt": rt["arg"].get("dt", "f8") if "dt" in rt["arg"] else "f8", "seed": S.seed(rng)}]}])
            k = int(rng.integers(-n + 1, n))
        alg = S.pick(rng, ["Exact", "Exact", "Auto", OMIT])
        yield {"spec": node, "k": k, "alg": alg, "prime": S.pick(rng, [None, None, "hutch-same-offset", "hutch-trace", "exact-other-offset"])}


def big_node(rng, kind, n, dt):
    D = lambda m=n: {"k": "Dense", "shape": [m, m], "dt": dt, "seed": S.seed(rng)}  # noqa
    if kind == "Dense":
        return D()
    if kind == "Generic":
        return {"k": "Generic", "shape": [n, n], "dt": dt, "seed": S.seed(rng)}
    if kind == "Diagonal":
        return {"k": "Diagonal", "n": n, "dt": dt, "seed": S.seed(rng)}
    if kind == "Tridiagonal":
        return {"k": "Tridiagonal", "n": n, "dt": dt, "seed": S.seed(rng)}
    if kind == "NoDispatch":
        return {"k": "NoDispatch", "arg": D()}
    if kind == "Sum":
        return {"k": "Sum", "via": "fn", "args": [D(), {"k": "Generic", "shape": [n, n], "dt": dt, "seed": S.seed(rng)}]}
    if kind == "Product":
        return {"k": "Product", "via": "ctor", "args": [D(), {"k": "Diagonal", "n": n, "dt": dt, "seed": S.seed(rng)}]}
    if kind == "Kronecker":
        fs = [f for f in S.factorize(rng, n, 2)]
        if 1 in fs:
            return D()
        return {"k": "Kronecker", "via": "ctor", "args": [D(f) for f in fs]}
    if kind == "BlockDiag":
        a = int(rng.integers(1, n))
        return {"k": "BlockDiag", "via": "ctor", "args": [D(a), D(n - a)]}
    raise ValueError(kind)


def make_alg(name):
    from cola.linalg import Auto, Exact
    return {"Exact": Exact(), "Auto": Auto()}[name]


GENERIC_RULES = ("diag(LinearOperator, int, Auto) p=-1", "diag(LinearOperator, int, Hutch | HutchPP | Exact) p=-1")


STOCHASTIC = {"last": []}


def call_diag(ctx, A, k, alg):
    """-> (result or Err, id of the rule selected for the top call)"""
    from cola import linalg as L
    DISPATCH.keep_events = True
    DISPATCH.reset()
    LOOPS.install()
    LOOPS.start(hard_cap=80)  # the exact algorithm has no convergence loop; an estimator would run for thousands of steps
    try:
        if alg == OMIT:
            out = ctx.call(L.diag, A, k) if k != 0 else ctx.call(L.diag, A)
        else:
            out = ctx.call(L.diag, A, k, make_alg(alg))
    finally:
        LOOPS.stop()
    first = next((e[2] for e in DISPATCH.events if e[0] == "diag"), None)
    STOCHASTIC["last"] = [e for e in DISPATCH.events if e[0] == "diag" and any("Hutch" in t for t in e[1])]
    DISPATCH.keep_events = False
    return out, first


def is_generic(rule):
    return rule is None or "diag(LinearOperator, int" in rule


def evaluate(ctx, node, case):
    """-> list of (oracle, ok, detail)"""
    from cola import linalg as L
    ref = R.dense(node)
    n = ref.M.shape[0]
    k = case["k"]
    if not (-n < k < n):
        k = 0
    A = ctx.call(B.build, node)
    if is_err(A):
        return []
    want = np.diag(ref.M, k)
    wantB = np.diag(ref.B, k)
    out = []
    if case.get("prime") and n <= 60:
        # hostile history on the *same operator object*: a stochastic estimate (or another offset) was asked for first; what
        # the exact algorithm returns afterwards does not depend on it
        from cola.linalg import Hutch
        ctx.count("primed_with", case["prime"])
        if case["prime"] == "hutch-same-offset":
            ctx.call(L.diag, A, k, Hutch(max_iters=3, bs=2, key=5))
        elif case["prime"] == "hutch-trace":
            ctx.call(L.trace, A, Hutch(max_iters=3, bs=2, key=5))
        else:
            ctx.call(L.diag, A, (k + 1) if k + 1 < n else 0, make_alg("Exact"))
    got, rule = call_diag(ctx, A, k, case["alg"])
    ctx.count("top_rule", rule)
    # (dispatch tap) neither the exact algorithm nor the automatic default at its default tolerance hands over to a
    # stochastic estimator, at any size reachable here
    out.append(("default-stays-exact", not STOCHASTIC["last"], {"stochastic_calls": [list(map(str, e)) for e in STOCHASTIC["last"][:3]], "n": n,
                                                               "alg": case["alg"]}))
    structural = not is_generic(rule)
    if is_err(got):
        if structural:
            ctx.count("structural_rule_refused", f"{rule}: {got.type}")
            out.append(("diag", True, None))
        else:
            out.append(("diag", False, {"error": repr(got), "rule": rule, "n": n, "k": k}))
    else:
        got = np.asarray(got)
        ok, d = R.close(got, want, wantB, ref.dtype, eps=max(ref.eps, R.eps_of(got.dtype) if got.dtype.kind in "fc" else 0))
        out.append(("diag", ok, {"detail": d, "rule": rule, "n": n, "k": k, "structural": structural}))
        if ok and ctx.scribble(got, A):
            # the diagonal handed back is the caller's: overwritten, then asked for again
            again, _ = call_diag(ctx, A, k, case["alg"])
            if not is_err(again):
                ok_, d_ = R.close(np.asarray(again), want, wantB, ref.dtype, eps=max(ref.eps, R.eps_of(np.asarray(again).dtype) if np.asarray(again).dtype.kind in "fc" else 0))
                out.append(("diag-again-after-caller-overwrote-result", ok_, {"detail": d_, "rule": rule, "n": n, "k": k}))
        if structural:  # differential: the generic probing on the same operator must agree whenever both return
            G = cola.no_dispatch(A)
            g2, _ = call_diag(ctx, G, k, "Exact")
            if not is_err(g2):
                ok2, d2 = R.close(np.asarray(g2), got, wantB, ref.dtype, eps=max(ref.eps, 1e-7 if ref.eps > 1e-10 else 0))
                out.append(("structural-vs-generic", ok2, {"detail": d2, "rule": rule, "n": n, "k": k}))
            else:
                ctx.count("generic_raised_in_differential", g2.type)
    if k == 0:
        tr = ctx.call(L.trace, A) if case["alg"] == OMIT else ctx.call(L.trace, A, make_alg(case["alg"]))
        wt = np.trace(ref.M)
        if is_err(tr):
            # refusing is allowed to structural rules only: the trace rule itself (Kronecker) or the structural diag
            # rule it delegates to
            DISPATCH.keep_events = True
            DISPATCH.reset()
            ctx.call(L.trace, A, make_alg("Exact"))
            tr_rule = next((e[2] for e in DISPATCH.events if e[0] == "trace"), "")
            dg_rule = next((e[2] for e in DISPATCH.events if e[0] == "diag"), None)
            DISPATCH.keep_events = False
            if "trace(LinearOperator" not in tr_rule or not is_generic(dg_rule):
                ctx.count("structural_rule_refused", f"trace via {tr_rule} / {dg_rule}: {tr.type}")
                out.append(("trace", True, None))
            else:
                out.append(("trace", False, {"error": repr(tr), "trace_rule": tr_rule, "diag_rule": dg_rule}))
        else:
            tol = 1e3 * max(ref.eps, 0) * (np.abs(wantB).sum() + 1e-300)
            out.append(("trace", bool(abs(complex(np.asarray(tr)) - wt) <= tol), {"got": complex(np.asarray(tr)), "want": complex(wt)}))
    return out


def run_case(ctx, case):
    DISPATCH.install()
    node = case["spec"]
    n = R.shape_of(node)[0]
    ctx.begin_case(case, sig=R.signature(node) + f"|k={case['k']}|{case['alg']}", nontrivial=True)
    for kd in set(R.kinds(node)):
        ctx.count("kind", kd)
    ctx.count("n_class", "n>100,n%100!=0" if n > 100 and n % 100 else ("n>=100,n%100==0" if n >= 100 else "n<100"))
    ctx.count("k_class", "0" if case["k"] == 0 else ("+" if case["k"] > 0 else "-"))
    results = evaluate(ctx, node, case)
    for oracle, ok, detail in results:
        if ok:
            ctx.check(oracle, True)
            continue

        def fails(nd):
            s_ = R.shape_of(nd)
            if s_[0] != s_[1]:
                return False
            return any(o == oracle and not k_ for o, k_, _ in evaluate(ctx, nd, case))

        culprit = blame(node, fails)
        preds = leaf_preds(culprit)
        cn = R.shape_of(culprit)[0]
        preds["k!=0"] = case["k"] != 0 and -cn < case["k"] < cn
        preds["n>100 and n%100!=0"] = bool(cn > 100 and cn % 100)
        if culprit["k"] in ("BlockDiag", "Kronecker"):
            preds["nonsquare_parts"] = any(R.shape_of(c)[0] != R.shape_of(c)[1] for c in culprit["args"])
        rule = (detail or {}).get("rule") if isinstance(detail, dict) else None
        ctx.check(oracle, False, site=culprit["k"], preds=preds,
                  detail={"detail": detail, "blamed": culprit if R.depth(culprit) <= 1 else R.signature(culprit)})
