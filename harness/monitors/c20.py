"""C20 - indexing and slicing an operator match indexing the represented matrix (DESIGN 4/C20)."""
import numpy as np

import cola
from cola.ops import LinearOperator
from harness import build as B
from harness import payload as P
from harness import refmodel as R
from harness import spec as S
from harness import wellcond as W
from harness.core import is_err
from harness.treecheck import leaf_preds

SIZES = {"quick": 110, "thorough": 4000}


def rand_slice(rng, n):
    r = int(rng.integers(0, 6))
    if r == 0:
        return slice(None)
    start = [None, int(rng.integers(-n, n + 1))][int(rng.integers(0, 2))]
    stop = [None, int(rng.integers(-n, n + 1))][int(rng.integers(0, 2))]
    step = S.pick(rng, [None, 1, 2, 3, -1, -2])
    return slice(start, stop, step)


def enc(ix):
    if isinstance(ix, slice):
        return {"s": [ix.start, ix.stop, ix.step]}
    if isinstance(ix, np.ndarray):
        return {"i": [int(v) for v in ix]}
    if isinstance(ix, list):
        return {"l": [int(v) for v in ix]}
    return {"int": int(ix)}


def dec(e):
    if "s" in e:
        return slice(*e["s"])
    if "i" in e:
        return np.asarray(e["i"], dtype=np.int64)
    if "l" in e:
        return list(e["l"])
    return int(e["int"])


def gen(tier, rng, shard, nshards):
    for i in range(SIZES[tier]):
        dtm = S.pick(rng, ["f8", "f8", "c16", "f4", "mixed"])
        o = S.Opts(dtmode=dtm, clean=True, max_dim=6, identity_dt="f4", routines=0.08)
        shape_kind = S.pick(rng, ["square", "tall", "wide", "any"])
        m, n = int(rng.integers(1, 7)), int(rng.integers(1, 7))
        if shape_kind == "square":
            n = m
        elif shape_kind == "tall" and m < n:
            m, n = n, m
        elif shape_kind == "wide" and m > n:
            m, n = n, m
        node = W.direct_only(S.gen_tree(rng, int(S.pick(rng, [0, 0, 1, 1, 2])), o, (m, n)))
        if m == n and rng.random() < 0.05:
            node = W.direct_only(W.gen_routine_directed(rng, S.pick(rng, ["f8", "c16", "f4"]), m))
        declared = m == n and rng.random() < 0.15
        if declared:
            # a (truthfully) declared self-adjoint / positive-definite operator: sub-operators must not inherit the declaration
            # unless the same rows and columns are selected in the same order
            dt = S.pick(rng, ["f8", "f8", "c16"])
            name = S.pick(rng, ["SelfAdjoint", "PSD"])
            node = {"k": "Annot", "name": name, "arg": {"k": S.pick(rng, ["Dense", "Dense", "Generic"]), "shape": [m, m], "dt": dt, "seed": S.seed(rng),
                                                        "gen": "herm" if name == "SelfAdjoint" else "psd_int"}}
        forms = []
        for _ in range(6):
            f = S.pick(rng, ["ij", "ij", "i", "i,:", "i,s", ":,j", "s,j", "s,s", "s,s", "a,a", "a,s", "s,a", "l,l", "s"])
            ii, jj = int(rng.integers(-m, m)), int(rng.integers(-n, n))
            arr_r = rng.integers(-m, m, size=int(rng.integers(1, m + 2))) if rng.random() < 0.3 else rng.permutation(m)[:int(rng.integers(1, m + 1))]
            arr_c = rng.integers(-n, n, size=int(rng.integers(1, n + 2))) if rng.random() < 0.3 else rng.permutation(n)[:int(rng.integers(1, n + 1))]
            if declared and f == "a,a" and rng.random() < 0.6:  # the same positions in a different order
                arr_r = rng.permutation(m)[:int(rng.integers(1, m + 1))]
                arr_c = rng.permutation(arr_r)
            if f == "ij":
                ids = [enc(ii), enc(jj)]
            elif f == "i":
                ids = [enc(ii)]
            elif f == "i,:":
                ids = [enc(ii), enc(slice(None))]
            elif f == "i,s":
                ids = [enc(ii), enc(rand_slice(rng, n))]
            elif f == ":,j":
                ids = [enc(slice(None)), enc(jj)]
            elif f == "s,j":
                ids = [enc(rand_slice(rng, m)), enc(jj)]
            elif f == "s,s":
                ids = [enc(rand_slice(rng, m)), enc(rand_slice(rng, n))]
            elif f == "a,a":
                ids = [enc(np.asarray(arr_r)), enc(np.asarray(arr_c))]
            elif f == "a,s":
                ids = [enc(np.asarray(arr_r)), enc(rand_slice(rng, n))]
            elif f == "s,a":
                ids = [enc(rand_slice(rng, m)), enc(np.asarray(arr_c))]
            elif f == "l,l":
                L = int(rng.integers(1, 5))
                ids = [enc([int(v) for v in rng.integers(-m, m, size=L)]), enc([int(v) for v in rng.integers(-n, n, size=L)])]
            else:
                ids = [enc(rand_slice(rng, m))]
            item = {"form": f, "ids": ids}
            if f == "a,a" and rng.random() < 0.35:
                # one and the same index array object for the rows and the columns (entries valid for both axes, negative ones
                # included: they mean different positions on the two axes of a non-square operator)
                q = min(m, n)
                arr = rng.integers(-q, q, size=int(rng.integers(1, q + 2))) if rng.random() < 0.5 else (rng.permutation(q)[:int(rng.integers(1, q + 1))] - int(S.pick(rng, [0, q])))
                item = {"form": f, "ids": [enc(np.asarray(arr)), enc(np.asarray(arr))], "same": True}
            forms.append(item)
        yield {"spec": node, "indexings": forms, "xdt": S.pick(rng, S.ALL_DT), "xseed": S.seed(rng)}


def ref_index(M, form, ids):
    """NumPy indexing of the represented matrix with the documented semantics (outer selection for index arrays)."""
    d = [dec(e) for e in ids]
    if form in ("ij", "i", "i,:", "i,s", ":,j", "s,j", "s,s", "s"):
        return M[tuple(d)] if len(d) > 1 else M[d[0]]
    if form == "l,l":
        return M[d[0], d[1]]
    r, c = d
    sub = M[r, :] if not isinstance(r, slice) else M[r, :]
    return sub[:, c]


def has_repeat(ids):
    return any("i" in e and len(set(v % 10**9 for v in e["i"])) < len(e["i"]) for e in ids)


def run_case(ctx, case):
    node = case["spec"]
    ref = R.dense(node)
    M, Bd = ref.M, ref.B
    m, n = M.shape
    A = B.build(node)
    ctx.begin_case(case, sig=R.signature(node) + "|" + ";".join(ix["form"] for ix in case["indexings"]), nontrivial=True)
    for k in set(R.kinds(node)):
        ctx.count("kind", k)
    ctx.count("shape", "square" if m == n else ("tall" if m > n else "wide"))
    for ix in case["indexings"]:
        form, ids = ix["form"], ix["ids"]
        ctx.count("form", form)
        key = tuple(dec(e) for e in ids)
        if ix.get("same"):
            key = (key[0], key[0])
            ctx.count("form", "a,a:same-array-object")
        idx_arrays = [k_ for k_ in key if isinstance(k_, np.ndarray)]
        idx_before = [k_.copy() for k_ in idx_arrays]
        want = ref_index(M, form, ids)
        wantB = ref_index(Bd, form, ids)
        got = ctx.call(lambda: A[key if len(key) > 1 else key[0]])
        if idx_arrays:
            # the index arrays are the caller's: indexing (whatever it normalises internally) leaves them as they were
            same = all(a.dtype == b.dtype and a.shape == b.shape and np.array_equal(a, b) for a, b in zip(idx_arrays, idx_before))
            ctx.check("index-arrays-left-unchanged", bool(same), site="getitem", preds={"form": form, "negative_index": bool(any((b < 0).any() for b in idx_before))},
                      detail={"before": [b.tolist() for b in idx_before], "after": [a.tolist() for a in idx_arrays]})
            if not same:
                key = tuple(dec(e) for e in ids)  # (judge the values with the indices the caller meant)
                if ix.get("same"):
                    key = (key[0], key[0])
        preds = {"form": form, "shape": "square" if m == n else ("tall" if m > n else "wide"), "top_kind": node["k"],
                 "negative_index": any(("int" in e and e["int"] < 0) or ("i" in e and min(e["i"], default=0) < 0) or ("l" in e and min(e["l"], default=0) < 0) for e in ids)}
        if form in ("a,a", "a,s", "s,a"):
            # normalised repeat detection (negative and positive aliases of the same position count as repeats)
            reps = False
            for e, dim in zip(ids, (m, n)):
                if "i" in e:
                    norm = [v % dim for v in e["i"]]
                    reps = reps or len(set(norm)) < len(norm)
            preds["repeated_index"] = reps
        site = "getitem"
        if is_err(got):
            ctx.check("indexing-returns", False, site=site, preds=dict(preds, error=got.type), detail={"error": repr(got), "ids": ids})
            continue
        ctx.check("indexing-returns", True)
        want_op = form in ("s,s", "a,a", "a,s", "s,a", "s")
        is_op = isinstance(got, LinearOperator)
        ctx.check("result-kind", is_op == want_op, site=site, preds=preds, detail={"got_operator": is_op, "form": form, "ids": ids})
        if is_op != want_op:
            continue
        eps = max(ref.eps, 0.0)
        if not is_op:
            g = np.asarray(got)
            ok, d = R.close(g, np.asarray(want), np.asarray(wantB), ref.dtype, eps=max(eps, R.eps_of(g.dtype) if g.dtype.kind in "fc" else 0))
            ctx.check("entries", ok, site=site, preds=preds, detail={"detail": d, "ids": ids})
            if ok and g.ndim >= 1 and ctx.scribble(g, A):
                # the row / column / entries handed back are the caller's: overwritten, then asked for again
                got2 = ctx.call(lambda: A[key if len(key) > 1 else key[0]])
                if is_err(got2):
                    ctx.check("entries-again-after-caller-overwrote-result", False, site=site, preds=dict(preds, error=got2.type), detail={"error": repr(got2), "ids": ids})
                else:
                    g2_ = np.asarray(got2)
                    ok_, d_ = R.close(g2_, np.asarray(want), np.asarray(wantB), ref.dtype, eps=max(eps, R.eps_of(g2_.dtype) if g2_.dtype.kind in "fc" else 0))
                    ctx.check("entries-again-after-caller-overwrote-result", ok_, site=site, preds=preds, detail={"detail": d_, "ids": ids})
            continue
        if tuple(got.shape) != tuple(want.shape):
            ctx.check("sub-operator-shape", False, site=site, preds=preds, detail={"got": list(got.shape), "want": list(want.shape), "ids": ids})
            continue
        ctx.check("sub-operator-shape", True)
        D = ctx.call(got.to_dense)
        if is_err(D):
            ctx.check("sub-operator-dense", False, site=site, preds=dict(preds, error=D.type), detail={"error": repr(D), "ids": ids})
        else:
            D = np.asarray(D)
            ok, d = R.close(D, want, wantB, ref.dtype, eps=max(eps, R.eps_of(D.dtype) if D.dtype.kind in "fc" else 0))
            ctx.check("sub-operator-dense", ok, site=site, preds=preds, detail={"detail": d, "ids": ids})
        if want.shape[1] > 0 and want.shape[0] > 0:
            # the sub-operator is an operator like any other: its transpose and its own entries / rows / columns are those of
            # the sub-matrix (slice of a slice)
            e0 = max(eps, 0.0)
            Dt = ctx.call(lambda: got.T.to_dense())
            if is_err(Dt):
                ctx.check("sub-operator-transpose", False, site=site, preds=dict(preds, error=Dt.type), detail={"error": repr(Dt), "ids": ids})
            else:
                Dt = np.asarray(Dt)
                ok, d = R.close(Dt, want.T, wantB.T, ref.dtype, eps=max(e0, R.eps_of(Dt.dtype) if Dt.dtype.kind in "fc" else 0))
                ctx.check("sub-operator-transpose", ok, site=site, preds=preds, detail={"detail": d, "ids": ids})
            i2, j2 = int(case["xseed"] % want.shape[0]), int((case["xseed"] // 7) % want.shape[1])
            for nm, f2, w2, wB2 in (("entry", lambda: got[i2, j2], want[i2, j2], wantB[i2, j2]), ("row", lambda: got[i2], want[i2], wantB[i2]),
                                    ("column", lambda: got[:, j2], want[:, j2], wantB[:, j2])):
                g2 = ctx.call(f2)
                if is_err(g2):
                    ctx.check("sub-operator-reindexed", False, site=site, preds=dict(preds, error=g2.type, second=nm), detail={"error": repr(g2), "ids": ids})
                    continue
                g2 = np.asarray(g2)
                ok, d = R.close(g2, np.asarray(w2), np.asarray(wB2), ref.dtype, eps=max(e0, R.eps_of(g2.dtype) if g2.dtype.kind in "fc" else 0))
                ctx.check("sub-operator-reindexed", ok, site=site, preds=dict(preds, second=nm), detail={"detail": d, "ids": ids, "second": [nm, i2, j2]})
            x = P.operand(case["xseed"], (want.shape[1], 2), case["xdt"])
            y = ctx.call(lambda: got @ x)
            if is_err(y):
                ctx.check("sub-operator-right-product", False, site=site, preds=dict(preds, error=y.type), detail={"error": repr(y), "ids": ids})
            else:
                e2 = max(eps, R.eps_of(x.dtype), R.eps_of(np.asarray(y).dtype) if np.asarray(y).dtype.kind in "fc" else 0)
                ok, d = R.close(y, want @ x, wantB @ np.abs(x), np.result_type(ref.dtype, x.dtype), eps=e2)
                ctx.check("sub-operator-right-product", ok, site=site, preds=dict(preds, complex_operand=x.dtype.kind == "c"), detail={"detail": d, "ids": ids})
            xl = P.operand(case["xseed"] + 1, (2, want.shape[0]), case["xdt"])
            yl = ctx.call(lambda: xl @ got)
            if is_err(yl):
                ctx.check("sub-operator-left-product", False, site=site, preds=dict(preds, error=yl.type), detail={"error": repr(yl), "ids": ids})
            else:
                e2 = max(eps, R.eps_of(xl.dtype), R.eps_of(np.asarray(yl).dtype) if np.asarray(yl).dtype.kind in "fc" else 0)
                ok, d = R.close(yl, xl @ want, np.abs(xl) @ wantB, np.result_type(ref.dtype, xl.dtype), eps=e2)
                ctx.check("sub-operator-left-product", ok, site=site, preds=dict(preds, complex_operand=xl.dtype.kind == "c"), detail={"detail": d, "ids": ids})
