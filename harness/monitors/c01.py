"""C01 - an operator acts on arrays exactly as the matrix it represents (DESIGN 4/C01)."""
import numpy as np

import cola
from cola.ops import LinearOperator
from harness import build as B
from harness import payload as P
from harness import refmodel as R
from harness import spec as S
from harness import wellcond as W
from harness.core import is_err
from harness.treecheck import blame, dt_class, leaf_preds

SIZES = {"quick": 230, "thorough": 5000}
DTMODES = ["f4", "f8", "c8", "c16", "mixed", "mixed_real", "mixed"]


def gen(tier, rng, shard, nshards):
    n = SIZES[tier]
    for i in range(n):
        dtm = S.pick(rng, DTMODES)
        clean = rng.random() < 0.9
        o = S.Opts(dtmode=dtm, clean=clean, max_dim=int(S.pick(rng, [4, 6, 8, 12])), routines=0.08)
        depth = int(S.pick(rng, [0, 1, 1, 2, 2, 3, 4]))
        node = S.gen_tree(rng, depth, o)
        if rng.random() < 0.06:
            # directed: Kronecker products / sums of three or four distinct parts assembled through the public functions in
            # either nesting order (flattening rules of kron / kronsum)
            k = S.pick(rng, ["Kronecker", "KronSum"])
            sizes = [int(x) for x in rng.integers(2, 4, size=int(rng.integers(3, 5)))]
            parts = [S.gen_tree(rng, 0, o, (a, a)) for a in sizes]
            if all(p is not None for p in parts):
                node = {"k": k, "via": S.pick(rng, ["fn", "fn-right", "fn-right"]), "args": parts}
        if rng.random() < 0.05:
            # directed: products of two Kronecker operators whose leading factors conform pairwise while the numbers of factors
            # differ (surplus 1 x 1 weight, m x 1 or 1 x n factors), next to products with equal factor counts
            dims = [(int(a), int(b), int(c)) for a, b, c in rng.integers(1, 4, size=(int(rng.integers(2, 4)), 3))]
            left = [S.gen_tree(rng, 0, o, (a, b)) for a, b, c in dims]
            right = [S.gen_tree(rng, 0, o, (b, c)) for a, b, c in dims]
            extra = S.pick(rng, ["none", "left-1x1", "right-1x1", "left-mx1", "right-1xn", "both"])
            if extra in ("left-1x1", "both"):
                left.append(S.gen_tree(rng, 0, o, (1, 1)))
            if extra in ("right-1x1", "both"):
                right.insert(int(rng.integers(0, len(right) + 1)) if extra == "both" else len(right), S.gen_tree(rng, 0, o, (1, 1)))
            if extra == "left-mx1":
                left.append(S.gen_tree(rng, 0, o, (int(rng.integers(2, 5)), 1)))
            if extra == "right-1xn":
                right.append(S.gen_tree(rng, 0, o, (1, int(rng.integers(2, 5)))))
            if all(p is not None for p in left + right):
                node = {"k": "Product", "via": S.pick(rng, ["fn", "fn", "ctor"]),
                        "args": [{"k": "Kronecker", "via": "ctor", "args": left}, {"k": "Kronecker", "via": "ctor", "args": right}]}
        if rng.random() < 0.05:
            # directed: views (transpose / adjoint) of slices of *declared* Hermitian operands whose selectors pick one index set in
            # two orders (not a principal sub-matrix), alone and as a factor next to the slice itself: S^T, S^H, S^T S, S S^H
            from harness.monitors.c02 import annotated_base
            for _ in range(20):
                base = annotated_base(rng, S.pick(rng, ["f8", "c16", "f4", "c8"]))
                if base["k"] == "Sliced":
                    break
            if base["k"] == "Sliced":
                view = {"k": S.pick(rng, ["Transpose", "Adjoint"]), "via": S.pick(rng, ["fn", "ctor"]), "arg": base}
                form = S.pick(rng, ["view", "view@S", "S@view", "view+view"])
                node = {"view": view, "view@S": {"k": "Product", "via": S.pick(rng, ["fn", "ctor"]), "share": True, "args": [view, base]},
                        "S@view": {"k": "Product", "via": S.pick(rng, ["fn", "ctor"]), "share": True, "args": [base, view]},
                        "view+view": {"k": "Sum", "via": "ctor", "share": True, "args": [view, view]}}[form]
        if rng.random() < 0.04:
            # directed: results of routines on structured arguments (TriangularInv, factor-wise inverses, inverse of an inverse)
            node = W.gen_routine_directed(rng, S.pick(rng, S.ALL_DT))
        if rng.random() < 0.04:
            # directed: nested scalar multiples whose scalars are each representable while their *product* is not, on an operator
            # whose entries compensate (the represented matrix is finite: (c1 c2) A must not be formed as (c1 c2) first)
            dt_ = S.pick(rng, ["f4", "c8", "f8", "c16"])
            unit, c1, c2 = S.pick(rng, {"f4": [(1e-15, 1e20, 1e20), (1e30, 1e-25, 1e-25)], "c8": [(1e-15, 1e20, 1e20), (1e30, 1e-25, 1e-25)],
                                        "f8": [(1e-150, 1e200, 1e200), (1e300, 1e-200, 1e-200)], "c16": [(1e-150, 1e200, 1e200), (1e300, 1e-200, 1e-200)]}[dt_])
            mm, nn = int(rng.integers(1, 5)), int(rng.integers(1, 5))
            leaf = {"k": S.pick(rng, ["Dense", "Generic"]), "shape": [mm, nn], "dt": dt_, "seed": S.seed(rng), "unit": unit}
            if rng.random() < 0.3:
                leaf = {"k": "Product", "via": "ctor", "args": [{"k": "Diagonal", "n": mm, "dt": dt_, "seed": S.seed(rng), "nonzero": True}, leaf]}
            node = {"k": "Scaled", "c": c2, "side": S.pick(rng, ["l", "r"]), "arg": {"k": "Scaled", "c": c1, "side": S.pick(rng, ["l", "r"]), "arg": leaf}}
            yield {"spec": node, "xdt": dt_, "xcols": int(S.pick(rng, [0, 1, 2])), "xseed": S.seed(rng)}
            continue
        xdt = S.pick(rng, S.ALL_DT) if dtm.startswith("mixed") else S.pick(rng, [dtm, dtm, dtm] + S.ALL_DT)
        yield {"spec": node, "xdt": xdt, "xcols": int(S.pick(rng, [0, 1, 2, 3, 5])), "xseed": S.seed(rng)}


def operand(case, n, cols=None):
    cols = case["xcols"] if cols is None else cols
    shape = (n, ) if cols == 0 else (n, cols)
    return P.operand(case["xseed"], shape, case["xdt"])


# ---- one sub-oracle evaluated on one (sub-)expression: returns (ok, detail) ------------------
def evaluate(oracle, node, case, ctx):
    ref = R.dense(node)
    A = ctx.call(B.build, node)
    if is_err(A):
        return (oracle != "build"), {"error": repr(A)}
    if oracle == "build":
        return True, None
    m, n = ref.M.shape
    if oracle == "shape":
        return tuple(A.shape) == (m, n), {"got": list(A.shape), "want": [m, n]}
    if oracle == "op-dtype":
        return np.dtype(A.dtype) == ref.dtype, {"got": str(np.dtype(A.dtype)), "want": str(ref.dtype)}
    if oracle in ("matvec", "matmat", "product-dtype"):
        x = operand(case, n) if oracle != "matvec" else operand(case, n, 0)
        if oracle == "matmat" and x.ndim == 1:
            x = operand(case, n, 2)
        y = ctx.call(lambda: A @ x)
        if is_err(y):
            return False, {"error": repr(y)}
        want_dt = np.result_type(ref.dtype, x.dtype)
        if oracle == "product-dtype":
            return np.asarray(y).dtype == want_dt, {"got": str(np.asarray(y).dtype), "want": str(want_dt),
                                                    "op": str(ref.dtype), "x": str(x.dtype)}
        e = max(ref.eps, R.eps_of(x.dtype), R.eps_of(np.asarray(y).dtype) if np.asarray(y).dtype.kind in "fc" else 0)
        return R.close(y, ref.M @ x, ref.B @ np.abs(x), want_dt, eps=e)
    if oracle == "left-product":  # used for blame only (C02 judges left products)
        x = P.operand(case["xseed"], (2, m), case["xdt"])
        y = ctx.call(lambda: x @ A)
        if is_err(y):
            return False, {"error": repr(y)}
        e = max(ref.eps, R.eps_of(x.dtype), R.eps_of(np.asarray(y).dtype) if np.asarray(y).dtype.kind in "fc" else 0)
        return R.close(y, x @ ref.M, np.abs(x) @ ref.B, np.result_type(ref.dtype, x.dtype), eps=e)
    if oracle in ("to_dense", "densify", "generic-dense", "dense-dtype"):
        if oracle == "densify":
            D = ctx.call(cola.densify, A)
        elif oracle == "generic-dense":
            D = ctx.call(LinearOperator.to_dense, A)
        else:
            D = ctx.call(A.to_dense)
        if is_err(D):
            return False, {"error": repr(D)}
        D = np.asarray(D)
        if oracle == "dense-dtype":
            return D.dtype == ref.dtype, {"got": str(D.dtype), "want": str(ref.dtype)}
        e = max(ref.eps, R.eps_of(D.dtype) if D.dtype.kind in "fc" else 0)
        return R.close(D, ref.M, ref.B, ref.dtype, eps=e)
    if oracle == "second-use":
        # the same operator object used again after the caller has overwritten what the first use handed back
        x = operand(case, n, 2)
        y1, D1 = ctx.call(lambda: A @ x), ctx.call(A.to_dense)
        if is_err(y1) or is_err(D1):
            return True, None  # (judged by the other oracles)
        ctx.scribble(np.asarray(y1), A, x)  # (an Identity hands its operand back: that is the caller's x, not a private result)
        ctx.scribble(np.asarray(D1), A, x)
        y2, D2 = ctx.call(lambda: A @ x), ctx.call(A.to_dense)
        if is_err(y2) or is_err(D2):
            return False, {"error": repr(y2 if is_err(y2) else D2)}
        e = max(ref.eps, R.eps_of(x.dtype))
        ok1, d1 = R.close(y2, ref.M @ x, ref.B @ np.abs(x), np.result_type(ref.dtype, x.dtype), eps=e)
        ok2, d2 = R.close(np.asarray(D2), ref.M, ref.B, ref.dtype, eps=ref.eps)
        return (ok1 and ok2), {"product": d1, "dense": d2}
    if oracle == "rebuilt":
        # an operator rebuilt (flatten / unflatten) from one that was already used, holding other data
        def prime(S_):
            S_.to_dense()
            S_ @ operand(case, n, 2)
        rb = B.rebuilt(node, prime)
        if rb is None:
            return True, None
        A2, node2 = rb
        ref2 = R.dense(node2)
        x = operand(case, n, 2)
        y, D = ctx.call(lambda: A2 @ x), ctx.call(A2.to_dense)
        if is_err(y) or is_err(D):
            return False, {"error": repr(y if is_err(y) else D)}
        e = max(ref2.eps, R.eps_of(x.dtype))
        ok1, d1 = R.close(y, ref2.M @ x, ref2.B @ np.abs(x), np.result_type(ref2.dtype, x.dtype), eps=e)
        ok2, d2 = R.close(np.asarray(D), ref2.M, ref2.B, ref2.dtype, eps=ref2.eps)
        return (ok1 and ok2), {"product": d1, "dense": d2}
    raise ValueError(oracle)


ORACLES = ["build", "shape", "op-dtype", "matvec", "matmat", "product-dtype", "to_dense", "densify", "generic-dense",
           "dense-dtype", "second-use", "rebuilt"]


# a sub-expression is "bad" for blame purposes if any oracle of the same family fails on it (the paths taken
# through a child differ between a parent's right product, left product and densification)
GROUPS = [("build", ), ("shape", ), ("op-dtype", "dense-dtype"), ("product-dtype", ),
          ("matvec", "matmat", "to_dense", "densify", "generic-dense", "left-product", "second-use", "rebuilt")]


def builds_identity(c):
    """Does this factor spec build an `Identity` instance?  (I.T, I.H and annotated I are still Identity objects, which `@` drops.)"""
    if c["k"] == "Identity":
        return True
    if c["k"] == "Annot" or (c["k"] in ("Transpose", "Adjoint") and c.get("via") == "fn"):
        return builds_identity(c["arg"])
    if c["k"] == "Routine":  # (inv / pow / sqrt ... of an Identity hand back an Identity object)
        try:
            return isinstance(B._build(c), cola.ops.Identity)
        except Exception:  # noqa
            return False
    return False


def run_case(ctx, case):
    node = case["spec"]
    ks = R.kinds(node)
    ctx.begin_case(case, sig=R.signature(node) + f"|x:{case['xdt']}:{case['xcols']}",
                   nontrivial=(R.depth(node) >= 1 or len(ks) > 1 or case["xdt"] != node.get("dt")))
    for k in set(ks):
        ctx.count("kind", k)
    ctx.count("depth", R.depth(node))
    ctx.count("operand", f"{case['xdt']}x{case['xcols']}")
    shp = R.shape_of(node)
    ctx.count("shape_class", "square" if shp[0] == shp[1] else ("wide8" if 8 * shp[0] < shp[1] else
                                                               ("1xN/Nx1" if 1 in shp else "rect")))
    built_ok = True
    for oracle in ORACLES:
        if not built_ok and oracle != "build":
            break
        ok, detail = evaluate(oracle, node, case, ctx)
        if ok:
            ctx.check(oracle, True)
            continue
        if oracle == "build":
            built_ok = False
        group = next(g for g in GROUPS if oracle in g)
        culprit = blame(node, lambda nd: any(not evaluate(o, nd, case, ctx)[0] for o in group))
        preds = leaf_preds(culprit)
        if culprit["k"] == "Product" and culprit.get("via") == "fn":
            preds["identity_factor"] = any(builds_identity(c) for c in culprit["args"])
        if oracle in ("product-dtype", ):
            preds["operand_dtype_differs"] = True
        ctx.check(oracle, False, site=culprit["k"], preds=preds,
                  detail={"detail": detail, "blamed": culprit if R.depth(culprit) <= 1 else R.signature(culprit)})
