"""C16 - svd and pinv return a valid singular value decomposition and the pseudo-inverse (DESIGN 4/C16)."""
import numpy as np

import cola
from harness import build as B
from harness import payload as P
from harness import spec as S
from harness.core import is_err
from harness.wellcond import lin

SIZES = {"quick": 90, "thorough": 2000}
OMIT = "omitted"


def gen(tier, rng, shard, nshards):
    if shard == 0:
        yield {"mode": "pinv-big", "seed": S.seed(rng), "tall": True}
    for i in range(SIZES[tier]):
        dt = S.pick(rng, ["f8", "f8", "c16", "f4"])
        m, n = int(rng.integers(1, 13)), int(rng.integers(1, 13))
        shape = S.pick(rng, ["any", "square", "tall", "wide"])
        if shape == "square":
            n = m
        elif shape == "tall" and m < n:
            m, n = n, m
        elif shape == "wide" and m > n:
            m, n = n, m
        r = min(m, n)
        if rng.random() < 0.5:
            k = r
            kmode = "all"
        else:
            k = int(rng.integers(1, r + 1))
            kmode = "all" if k == r else "partial"
        if rng.random() < 0.55:
            yield {"mode": "svd", "m": m, "n": n, "dt": dt, "k": k, "kmode": kmode, "seed": S.seed(rng),
                   "alg": S.pick(rng, [OMIT, "Auto", "DenseSVD", "Lanczos", "Lanczos"]),
                   "kind": S.pick(rng, ["Dense", "Dense", "Generic", "Identity", "Diagonal", "Product", "SelfAdjoint", "SelfAdjoint", "PSD", "DiagonalZero"])}
        else:
            yield {"mode": "pinv", "m": m, "n": n, "dt": dt, "seed": S.seed(rng), "alg": S.pick(rng, [OMIT, "Auto", "LSTSQ", "CG", "CG"]),
                   "wide_rhs": bool(rng.random() < 0.25),
                   "kind": S.pick(rng, ["Dense", "Dense", "Generic", "Identity", "Diagonal", "ScalarMul", "Permutation", "Product", "ProductRect", "ProductRect", "SelfAdjoint", "PSD", "ViewOfLazy", "ViewOfLazy"]),
                   "cols": int(S.pick(rng, [0, 1, 3, -1])), "consistent": bool(rng.random() < 0.5)}


def operator(case, rng):
    m, n, dt = case["m"], case["n"], case["dt"]
    kind = case["kind"]
    r = min(m, n)
    if kind == "DiagonalZero":
        # a rank-deficient diagonal operator (exactly zero entries): U and V are still orthonormal, Sigma has zeros
        n = m
        vals = [float(x) for x in rng.permutation(np.linspace(1.0, 4.0, n)) * rng.choice([-1.0, 1.0], size=n)]
        for j in rng.choice(n, size=max(1, n // 3), replace=False):
            vals[int(j)] = 0.0
        if dt in P.CPLX:
            vals = [{"re": v, "im": float(rng.integers(-1, 2)) if v != 0 else 0.0} for v in vals]
        return {"k": "Diagonal", "n": n, "dt": dt, "vals": vals}
    if kind in ("Identity", "Diagonal", "ScalarMul", "Permutation"):
        n = m
        if kind == "Identity":
            node = {"k": "Identity", "n": n, "dt": dt}
        elif kind == "Diagonal":
            # (a diagonal operator in tiny / huge units is still full rank with condition number 4)
            unit = float(S.pick(rng, [1.0, 1.0, 1.0, 1e-7, 1e-17, 1e12]))
            vals = [float(x) * unit for x in rng.permutation(np.linspace(1.0, 4.0, n)) * rng.choice([-1.0, 1.0], size=n)]
            if dt in P.CPLX:
                vals = [{"re": v, "im": float(rng.integers(-1, 2)) * unit} for v in vals]
            node = {"k": "Diagonal", "n": n, "dt": dt, "vals": vals}
        elif kind == "ScalarMul":
            node = {"k": "ScalarMul", "n": n, "dt": dt, "c": float(S.pick(rng, [2.0, -0.5, 4.0]))}
        else:
            node = {"k": "Permutation", "perm": [int(i) for i in rng.permutation(n)], "dt": dt}
        return node
    if kind in ("SelfAdjoint", "PSD"):
        # declared Hermitian operators: indefinite (or negative definite) for SelfAdjoint -- the singular values are the
        # *magnitudes* of the eigenvalues -- and positive definite for PSD
        n = m
        mags = lin(1.0, 4.0, n)
        if kind == "PSD":
            signs = np.ones(n)
        else:
            signs = rng.choice([-1.0, 1.0], size=n) if rng.random() < 0.7 else -np.ones(n)
            signs[int(rng.integers(0, n))] = -1.0
        leaf = {"k": S.pick(rng, ["Dense", "Dense", "Generic"]), "shape": [n, n], "dt": dt, "seed": S.seed(rng), "gen": "herm",
                "eigs": [float(a * b) for a, b in zip(mags, signs)]}
        return {"k": "Annot", "name": kind, "arg": leaf}
    sv = lin(1.0, 4.0, r)  # well separated, cond 4, full rank
    leaf = {"k": "Dense" if kind != "Generic" else "Generic", "shape": [m, n], "dt": dt, "seed": S.seed(rng), "gen": "svals", "svals": sv}
    if kind == "ProductRect":
        # A = B C with rectangular factors for which (B C)^+ != C^+ B^+ in general (tall @ tall, wide @ wide, wide @ tall)
        if abs(m - n) >= 2 and rng.random() < 0.7:
            p_ = (m + n) // 2
        else:
            p_ = max(m, n) + 2
        f1 = {"k": S.pick(rng, ["Dense", "Generic"]), "shape": [m, p_], "dt": dt, "seed": S.seed(rng), "gen": "svals", "svals": lin(1.0, 2.0, min(m, p_))}
        f2 = {"k": "Dense", "shape": [p_, n], "dt": dt, "seed": S.seed(rng), "gen": "svals", "svals": lin(1.0, 2.0, min(p_, n))}
        return {"k": "Product", "via": S.pick(rng, ["ctor", "fn"]), "args": [f1, f2]}
    if kind == "ViewOfLazy":
        # the operator is a lazy transpose / adjoint of another combinator's output (Product, Sum, matrix-free, Sliced): pinv of a
        # view of X, for real and complex X
        inner = {"k": S.pick(rng, ["Dense", "Generic"]), "shape": [n, m], "dt": dt, "seed": S.seed(rng), "gen": "svals", "svals": sv}
        base = S.pick(rng, ["Generic", "Product", "Sum", "Sliced"])
        if base == "Generic":
            X = dict(inner, k="Generic")
        elif base == "Product":
            X = {"k": "Product", "via": "ctor", "args": [{"k": "Dense", "shape": [n, n], "dt": dt, "seed": S.seed(rng), "gen": "orth"}, inner]}
        elif base == "Sum":
            X = {"k": "Sum", "via": "ctor", "args": [inner, dict(inner, k="Dense", seed=int(inner["seed"]))]}  # (2 X: same singular vectors)
        else:
            big = {"k": "Dense", "shape": [n + 1, m + 2], "dt": dt, "seed": S.seed(rng), "gen": "svals", "svals": lin(1.0, 4.0, min(n + 1, m + 2))}
            X = {"k": "Sliced", "via": "fn", "slices": [{"s": [0, n, None]}, {"s": [1, m + 1, None]}], "arg": big}
        return {"k": S.pick(rng, ["Adjoint", "Transpose"]), "via": S.pick(rng, ["ctor", "fn"]), "arg": X}
    if kind == "Product":
        # A = U0 @ leaf with a unitary left factor (keeps the singular values)
        U0 = {"k": "Dense", "shape": [m, m], "dt": dt, "seed": S.seed(rng), "gen": "orth"}
        return {"k": "Product", "via": "ctor", "args": [U0, leaf]}
    return leaf


def run_case(ctx, case):
    if case["mode"] == "pinv-big":
        return run_big(ctx, case)
    from harness import refmodel as R
    rng = P.rng_for("c16", case["seed"])
    node = operator(case, rng)
    ref = R.dense(node)
    M = ref.M
    m, n = M.shape
    A = B.build(node)
    eps = max(ref.eps, 1e-12)
    sig = f"{case['mode']}|{case['kind']}|{m}x{n}|{case['dt']}|{case['alg']}|" + (f"k={case.get('k')}:{case.get('kmode')}" if case["mode"] == "svd" else f"cols={case['cols']}:{case['consistent']}")
    ctx.begin_case(case, sig=sig, nontrivial=True)
    ctx.count("mode", case["mode"])
    ctx.count("kind", case["kind"])
    ctx.count("shape", "square" if m == n else ("tall" if m > n else "wide"))
    ctx.count("alg", f"{case['mode']}:{case['alg']}")
    preds = {"kind": case["kind"], "shape": "square" if m == n else ("tall" if m > n else "wide"), "alg": case["alg"], "complex": ref.dtype.kind == "c"}
    if case["mode"] == "svd":
        return run_svd(ctx, case, A, M, eps, preds)
    return run_pinv(ctx, case, A, M, eps, preds, rng)


def run_svd(ctx, case, A, M, eps, preds):
    from cola.linalg import Auto, Lanczos
    from cola.linalg.svd.svd import DenseSVD, svd
    m, n = M.shape
    r = min(m, n)
    k = min(case["k"], r)
    alg = {OMIT: None, "Auto": Auto(), "DenseSVD": DenseSVD(), "Lanczos": Lanczos(max_iters=max(m, n) + 2, tol=1e-13)}[case["alg"]]
    if alg is not None and case["seed"] % 3 == 0:
        # the same algorithm object was used before, on a smaller operator
        ctx.call(svd, cola.ops.Dense(np.array([[2.0, 0.0, 0.0], [0.0, 1.0, 0.0]], dtype=M.dtype)), 1, "LM", alg)
        preds = dict(preds, alg_object_reused=True)
    out = ctx.call(svd, A, k) if alg is None else ctx.call(svd, A, k, "LM", alg)
    krylov = case["alg"] == "Lanczos" and case["kind"] != "DiagonalZero"  # (the Diagonal rule is structural whatever the algorithm)
    preds = dict(preds, k_class="all" if k == r else "partial")
    if is_err(out):
        ctx.check("svd-returns", False, site="svd", preds=preds, detail={"error": repr(out)})
        return
    ctx.check("svd-returns", True)
    U, Sg, V = (np.asarray(x.to_dense()) for x in out)
    sref = np.linalg.svd(M, compute_uv=False)
    # (relative to the operator's own scale: operators in tiny units are not judged against an absolute floor)
    tol_o = 2e3 * max(eps, 1e-9 if krylov else 0) * max(m, n) * (sref[0] / sref[-1] if krylov else 1.0)  # orthonormality: scale free
    tol = tol_o * (max(sref[0], 1.0) if sref[0] >= 1e-3 else sref[0])
    kk = Sg.shape[0]
    ok_shapes = Sg.shape == (kk, kk) and U.shape == (m, kk) and V.shape == (n, kk) and kk >= 1
    ctx.check("svd-shapes", bool(ok_shapes), site="svd", preds=preds, detail={"U": list(U.shape), "S": list(Sg.shape), "V": list(V.shape), "k": k})
    if not ok_shapes or not all(np.all(np.isfinite(x)) for x in (U, Sg, V)):
        return
    ctx.check("U-orthonormal-columns", bool(np.abs(U.conj().T @ U - np.eye(kk)).max() <= max(tol_o, tol if sref[0] < 1e6 else tol_o)), site="svd", preds=preds,
              detail={"dev": float(np.abs(U.conj().T @ U - np.eye(kk)).max()), "tol": tol})
    ctx.check("V-orthonormal-columns", bool(np.abs(V.conj().T @ V - np.eye(kk)).max() <= max(tol_o, tol if sref[0] < 1e6 else tol_o)), site="svd", preds=preds,
              detail={"dev": float(np.abs(V.conj().T @ V - np.eye(kk)).max()), "tol": tol})
    s = np.diag(Sg)
    offd = Sg - np.diag(s)
    ctx.check("Sigma-nonnegative-diagonal", bool(np.abs(offd).max(initial=0.0) == 0 and np.all(np.abs(np.imag(s)) <= tol) and np.all(np.real(s) >= -tol)),
              site="svd", preds=preds, detail={"sigma": s})
    recon = U @ Sg @ V.conj().T
    if kk == r:
        ctx.check("U-Sigma-VH-equals-A", bool(np.abs(recon - M).max() <= tol), site="svd", preds=preds,
                  detail={"dev": float(np.abs(recon - M).max()), "tol": tol})
    elif krylov:
        # a Krylov algorithm asked for k of them: the k largest, and the best rank-k approximation
        ctx.check("k-largest-singular-values", bool(kk == k and np.allclose(np.sort(np.real(s))[::-1], sref[:k], rtol=0, atol=tol)), site="svd",
                  preds=preds, detail={"sigma": np.sort(np.real(s))[::-1], "reference": sref[:k]})
        err2 = np.linalg.norm(M - recon, 2)
        ctx.check("best-rank-k-approximation", bool(abs(err2 - sref[k]) <= tol), site="svd", preds=preds,
                  detail={"err2": float(err2), "sigma_k+1": float(sref[k])})
    else:
        ctx.note("dense_svd_with_k<min(m,n): recorded, not judged")


def run_pinv(ctx, case, A, M, eps, preds, rng):
    from cola.linalg import CG, Auto, pinv
    from cola.linalg.inverse.pinv import LSTSQ
    m, n = M.shape
    cplx = np.iscomplexobj(M)
    single = eps > 1e-10
    alg = {OMIT: None, "Auto": Auto(), "LSTSQ": LSTSQ(), "CG": CG(tol=1e-5 if single else 1e-10, max_iters=40 * max(m, n) + 50)}[case["alg"]]
    shape = (m, ) if case["cols"] == 0 else (m, (m if m <= 8 else 3) if case["cols"] == -1 else case["cols"])  # (-1: a square right-hand-side block)
    if case["consistent"]:
        x_true = rng.standard_normal((n, ) + shape[1:]) + (1j * rng.standard_normal((n, ) + shape[1:]) if cplx else 0)
        b = M @ x_true
    else:
        b = rng.standard_normal(shape) + (1j * rng.standard_normal(shape) if cplx else 0)
    b = b.astype(A.dtype if np.dtype(A.dtype).kind in "fc" else M.dtype)
    if case.get("wide_rhs") and not cplx:
        # a complex right-hand side for a real operator ("all right-hand sides"): pinv(A) @ (u + i v) = pinv(A) u + i pinv(A) v
        b2 = rng.standard_normal(b.shape).astype(b.dtype)
        b = (b + 1j * (M @ (rng.standard_normal((n, ) + shape[1:])) if case["consistent"] else b2)).astype(np.result_type(b.dtype, np.complex64))
        preds = dict(preds, rhs_wider_than_operator=True)
    Pv = ctx.call(pinv, A) if alg is None else ctx.call(pinv, A, alg)
    preds = dict(preds, consistent=case["consistent"])
    if is_err(Pv):
        ctx.check("pinv-returns", False, site="pinv", preds=preds, detail={"error": repr(Pv)})
        return
    x = ctx.call(lambda: Pv @ b)
    if is_err(x):
        ctx.check("pinv-returns", False, site="pinv", preds=preds, detail={"error": repr(x)})
        return
    ctx.check("pinv-returns", True)
    from harness.reuse import reuse_checks
    b_other = (rng.standard_normal(b.shape) + (1j * rng.standard_normal(b.shape) if np.iscomplexobj(b) else 0)).astype(b.dtype)
    reuse_checks(ctx, (lambda: pinv(A)) if alg is None else (lambda: pinv(A, alg)), b, b_other, "pinv", dict(preds),
                 rel_tol=1e-3 if case["alg"] == "CG" else 1e-8)
    x = np.asarray(x)
    want, *_ = np.linalg.lstsq(M.astype(np.result_type(M.dtype, b.dtype)), b.astype(np.result_type(M.dtype, b.dtype)), rcond=None)
    if x.shape != want.shape or not np.all(np.isfinite(x)):
        ctx.check("pinv-shape-finite", False, site="pinv", preds=preds, detail={"got": list(x.shape), "want": list(want.shape)})
        return
    sref = np.linalg.svd(M, compute_uv=False)
    cond = sref[0] / sref[-1]
    cg = case["alg"] == "CG"
    tol = (2e3 * eps * cond * cond * max(m, n) + (100 * (1e-5 if single else 1e-10) * cond * cond if cg else 0)) * max(np.linalg.norm(want), np.linalg.norm(b) / sref[0], 1e-300)
    ctx.check("pinv-is-min-norm-least-squares", bool(np.linalg.norm(x - want) <= tol), site="pinv", preds=preds,
              detail={"err": float(np.linalg.norm(x - want)), "tol": tol, "norm_x": float(np.linalg.norm(x)), "norm_want": float(np.linalg.norm(want))})
    res_got, res_want = np.linalg.norm(M @ x - b), np.linalg.norm(M @ want - b)
    ctx.check("pinv-residual-minimal", bool(res_got <= res_want + tol * sref[0]), site="pinv", preds=preds, detail={"got": float(res_got), "min": float(res_want)})
    ctx.check("pinv-norm-minimal", bool(np.linalg.norm(x) <= np.linalg.norm(want) + tol), site="pinv", preds=preds,
              detail={"got": float(np.linalg.norm(x)), "min": float(np.linalg.norm(want))})


def run_big(ctx, case):
    """Large side of pinv's automatic switch (more than 10^6 entries -> CG on the normal equations)."""
    from cola.linalg import pinv
    rng = np.random.default_rng(case["seed"])
    m, n = 2501, 401
    ctx.begin_case(case, sig="pinv-big", nontrivial=True)
    Q1, _ = np.linalg.qr(rng.standard_normal((m, n)))
    Q2, _ = np.linalg.qr(rng.standard_normal((n, n)))
    M = (Q1 * np.linspace(1.0, 3.0, n)) @ Q2.T
    b = rng.standard_normal(m)
    x = ctx.call(lambda: pinv(cola.ops.Dense(M)) @ b)
    preds = {"kind": "Dense", "shape": "tall", "alg": "Auto-large", "complex": False}
    if is_err(x):
        ctx.check("pinv-auto-large", False, site="pinv", preds=preds, detail={"error": repr(x)})
        return
    want, *_ = np.linalg.lstsq(M, b, rcond=None)
    err = np.linalg.norm(np.asarray(x) - want) / np.linalg.norm(want)
    ctx.check("pinv-auto-large", bool(err <= 1e-3), site="pinv", preds=preds, detail={"rel_err": float(err)})
