"""C04 - rule selection is total and unambiguous (DESIGN 4/C04).

The finite lattice (function, kind or pair of kinds, declared annotation, admitted algorithm class, omitted vs
explicit optional arguments) is enumerated completely; every tuple is *executed* on tiny real instances with the
dispatch tap armed, so that Ambiguous/NotFound lookup errors are observed both at the top call and in the nested
dispatched calls made by the selected rule.  Any other exception is the selected rule's business (outside C04).
"""
import itertools

import numpy as np

import cola
from cola import ops
from harness.probes import DISPATCH

N = 4
ANNOTS = [None, "SelfAdjoint", "PSD", "Stiefel", "Unitary"]


# ---- tiny instances: one per kind, 4x4, symmetric positive definite wherever the kind allows ------------------
def _spd(n, dtype=np.float64, shift=0.0):
    a = np.arange(1, n * n + 1, dtype=np.float64).reshape(n, n) / (n * n)
    m = a @ a.T + (n + shift) * np.eye(n)
    if np.dtype(dtype).kind == "c":
        s = np.triu(np.ones((n, n)), 1) * 0.25j
        m = m + s - s.T
    return m.astype(dtype)


def instances(dtype=np.float64, variant=0):
    D = _spd(N, dtype, variant)
    D2 = _spd(2, dtype, variant)
    cplx = np.dtype(dtype).kind == "c"
    rdt = np.float64
    out = {
        "Dense": lambda: ops.Dense(D.copy()),
        "Triangular": lambda: ops.Triangular(np.tril(D), lower=True),
        "Sparse": lambda: ops.Sparse(np.array([3., 3, 3, 3, 1, 1], dtype=dtype), np.array([0, 1, 2, 3, 0, 1]),
                                     np.array([0, 1, 2, 3, 1, 0]), shape=(N, N)),
        "ScalarMul": lambda: ops.ScalarMul(2.0, (N, N), dtype=dtype),
        "Identity": lambda: ops.Identity((N, N), dtype),
        "Product": lambda: ops.Product(ops.Dense(D.copy()), ops.Dense(D.copy())),
        "Sum": lambda: ops.Sum(ops.Dense(D.copy()), ops.Diagonal(np.ones(N, dtype=dtype))),
        "Kronecker": lambda: ops.Kronecker(ops.Dense(D2.copy()), ops.Dense(D2.copy())),
        "KronSum": lambda: ops.KronSum(ops.Dense(D2.copy()), ops.Dense(D2.copy())),
        "BlockDiag": lambda: ops.BlockDiag(ops.Dense(D2.copy()), multiplicities=[2]),
        "Diagonal": lambda: ops.Diagonal(np.arange(1, N + 1).astype(dtype)),
        "Tridiagonal": lambda: ops.Tridiagonal(-np.ones(N - 1, dtype=dtype), 3 * np.ones(N, dtype=dtype),
                                               -np.ones(N - 1, dtype=dtype)),
        "Transpose": lambda: ops.Transpose(ops.Dense(D.copy())),
        "Adjoint": lambda: ops.Adjoint(ops.Dense(D.copy())),
        "Sliced": lambda: ops.Sliced(ops.Dense(_spd(N + 1, dtype, variant)), (slice(0, N), slice(0, N))),
        "Permutation": lambda: ops.Permutation(np.array([1, 0, 3, 2]), dtype),
        "Concatenated": lambda: ops.Concatenated(ops.Dense(D[:2].copy()), ops.Dense(D[2:].copy()), axis=0),
        "Householder": lambda: ops.Householder((np.ones((N, 1)) / 2).astype(dtype)),
        "FFT": lambda: ops.FFT(N, np.complex128),
        "Generic": lambda: ops.LinearOperator(D.dtype, D.shape, matmat=lambda X: D @ X),
        "NoDispatch": lambda: cola.no_dispatch(ops.Dense(D.copy())),
    }
    if not cplx:
        from harness import payload as P
        out["Kernel"] = lambda: ops.Kernel(np.arange(N * 2, dtype=rdt).reshape(N, 2) / 4,
                                           np.arange(N * 2, dtype=rdt).reshape(N, 2) / 4, P.KERNELS["rbf"], 2, 2)
        out["Jacobian"] = lambda: ops.Jacobian(P.JacFn(D.astype(rdt)), np.ones(N, dtype=rdt) / 2)
        out["Hessian"] = lambda: ops.Hessian(P.HessFn(D.astype(rdt)), np.ones(N, dtype=rdt) / 2)
    return out


def rect_instances(dtype=np.float64):
    T = (np.arange(15, dtype=np.float64).reshape(5, 3) / 7 + np.eye(5, 3)).astype(dtype)  # tall 5x3
    return {
        "Dense": lambda: ops.Dense(T.copy()),
        "Sparse": lambda: ops.Sparse(np.array([1., 2, 3], dtype=dtype), np.array([0, 1, 4]), np.array([0, 1, 2]), shape=(5, 3)),
        "Product": lambda: ops.Product(ops.Dense(T.copy()), ops.Dense(_spd(3, dtype))),
        "Sum": lambda: ops.Sum(ops.Dense(T.copy()), ops.Dense(T.copy())),
        "Kronecker": lambda: ops.Kronecker(ops.Dense(T[:, :1].copy()), ops.Dense(T[:1, :].copy())),
        "BlockDiag": lambda: ops.BlockDiag(ops.Dense(T[:2, :1].copy()), ops.Dense(T[2:, 1:].copy())),
        "Transpose": lambda: ops.Transpose(ops.Dense(T.T.copy())),
        "Adjoint": lambda: ops.Adjoint(ops.Dense(T.T.copy())),
        "Sliced": lambda: ops.Sliced(ops.Dense(_spd(6, dtype)), (slice(0, 5), slice(0, 3))),
        "Concatenated": lambda: ops.Concatenated(ops.Dense(T[:2].copy()), ops.Dense(T[2:].copy()), axis=0),
        "Generic": lambda: ops.LinearOperator(T.dtype, T.shape, matmat=lambda X: T @ X),
        "NoDispatch": lambda: cola.no_dispatch(ops.Dense(T.copy())),
    }


def annotate(A, name):
    return A if name is None else getattr(cola, name)(A)


# ---- admitted algorithm objects per function (transcribed from the docstrings), all with tiny iteration caps --------
def algs():
    from cola.linalg import Auto, CG, GMRES, LU, Cholesky, Lanczos, Arnoldi, Eig, Eigh, Exact, Hutch, PowerIteration, LOBPCG
    from cola.linalg.inverse.pinv import LSTSQ
    from cola.linalg.svd.svd import DenseSVD
    it = dict(max_iters=4)
    # "Auto(tol)": an Auto object that carries an option, as in the docstrings' `alg=Auto(tol=1e-4)` (every algorithm the automatic
    # choice can resolve to accepts `tol`)
    at = lambda: Auto(tol=1e-4)  # noqa
    return {
        "inv": {"Auto": Auto(), "Auto(tol)": at(), "CG": CG(**it), "GMRES": GMRES(**it), "LU": LU(), "Cholesky": Cholesky()},
        "pinv": {"Auto": Auto(), "Auto(tol)": at(), "CG": CG(**it), "LSTSQ": LSTSQ()},
        "log_alg": {"Auto": Auto(), "Auto(tol)": at(), "Cholesky": Cholesky(), "LU": LU(), "Lanczos": Lanczos(**it), "Arnoldi": Arnoldi(**it)},
        "trace_alg": {"Auto": Auto(), "Auto(tol)": at(), "Exact": Exact(), "Hutch": Hutch(max_iters=2, key=1)},
        "unary": {"Auto": Auto(), "Auto(tol)": at(), "Eig": Eig(), "Eigh": Eigh(), "Lanczos": Lanczos(**it), "Arnoldi": Arnoldi(**it)},
        "eig": {"Auto": Auto(), "Auto(tol)": at(), "Eig": Eig(), "Eigh": Eigh(), "Arnoldi": Arnoldi(**it), "Lanczos": Lanczos(**it),
                "LOBPCG": LOBPCG(max_iters=2), "PowerIteration": PowerIteration(max_iter=3)},
        "svd": {"Auto": Auto(), "Auto(tol)": at(), "DenseSVD": DenseSVD(), "Lanczos": Lanczos(**it), "LOBPCG": LOBPCG(max_iters=2)},
    }


OMIT = "<omitted>"


def lattice(config, tier="thorough"):
    """Yield every tuple as a dict {fn, kind(s), annot(s), alg..., dtype, shape}."""
    for t in _lattice(config):
        if tier == "quick":
            # quick lattice: real instances completely in the plain registry; complex instances and the second
            # registry configuration for the single-operator functions only (pairs of kinds are dtype/registry-blind)
            if "kind2" in t and (t["dt"] != "f8" or config != "plain"):
                continue
            if t["dt"] != "f8" and t.get("annot") not in (None, "SelfAdjoint"):
                continue
            if "kind2" in t and t["annot2"] is not None and t["fn"] in ("sub", "kronsum"):
                continue
            if t["fn"] == "logdet" and (t["log_alg"] not in (OMIT, "Auto") or t["trace_alg"] not in (OMIT, "Exact")):
                continue  # logdet is a thin wrapper over slogdet, which is enumerated completely
            if t["fn"] == "eig" and (t["k"], t["which"]) not in ((1, "LM"), (2, "SM"), (2, OMIT), (1, OMIT)):
                continue
            if config != "plain" and t.get("annot") not in (None, "PSD"):
                continue
        yield t


def _lattice(config):
    for dt in ("f8", "c16"):
        kinds = sorted(instances(np.float64 if dt == "f8" else np.complex128).keys())
        for k in kinds:
            for an in ANNOTS:
                base = {"kind": k, "annot": an, "dt": dt, "shape": "square"}
                for fn in ("transpose", "adjoint", "cholesky", "plu", "to_dense", "neg"):
                    yield dict(base, fn=fn)
                for sc in ("int", "float", "complex", "np0d"):
                    for fn in ("mul", "rmul", "div"):
                        yield dict(base, fn=fn, scalar=sc)
                for a in [OMIT, "Auto", "Auto(tol)", "CG", "GMRES", "LU", "Cholesky"]:
                    yield dict(base, fn="inv", alg=a)
                    yield dict(base, fn="solve", alg=a)
                for a in [OMIT, "Auto", "Auto(tol)", "CG", "LSTSQ"]:
                    yield dict(base, fn="pinv", alg=a)
                for la in [OMIT, "Auto", "Auto(tol)", "Cholesky", "LU", "Lanczos", "Arnoldi"]:
                    for ta in [OMIT, "Auto", "Auto(tol)", "Exact", "Hutch"]:
                        if la == OMIT and ta != OMIT:
                            continue  # positional API: trace_alg cannot be given without log_alg ... keyword form below
                        yield dict(base, fn="slogdet", log_alg=la, trace_alg=ta)
                        yield dict(base, fn="logdet", log_alg=la, trace_alg=ta)
                    yield dict(base, fn="slogdet_kw", log_alg=la, trace_alg="Exact")
                for a in [OMIT, "Auto", "Auto(tol)", "Exact", "Hutch"]:
                    for kk in (0, 1, -1):
                        yield dict(base, fn="diag", alg=a, k=kk)
                    yield dict(base, fn="trace", alg=a)
                for fn in ("exp", "log", "sqrt", "isqrt", "pow", "pow_int", "pow_neg1", "apply_unary"):
                    for a in [OMIT, "Auto", "Auto(tol)", "Eig", "Eigh", "Lanczos", "Arnoldi"]:
                        yield dict(base, fn=fn, alg=a)
                for a in [OMIT, "Auto", "Auto(tol)", "Eig", "Eigh", "Arnoldi", "Lanczos", "LOBPCG", "PowerIteration"]:
                    for which in ("LM", "SM", OMIT):
                        for kk in (1, 2):
                            if a != OMIT and which == OMIT:
                                continue
                            yield dict(base, fn="eig", alg=a, which=which, k=kk)
                    yield dict(base, fn="eigmax", alg=a)
                    yield dict(base, fn="eigmin", alg=a)
                for a in [OMIT, "Auto", "Auto(tol)", "DenseSVD", "Lanczos", "LOBPCG"]:
                    yield dict(base, fn="svd", alg=a, k=2)
        # binary combinators: all ordered pairs of kinds x annotation of each side
        for k1, k2 in itertools.product(kinds, kinds):
            for a1 in ANNOTS:
                for a2 in (None, a1):
                    for fn in ("dot", "add", "sub", "kron", "kronsum"):
                        yield {"fn": fn, "kind": k1, "kind2": k2, "annot": a1, "annot2": a2, "dt": dt, "shape": "square"}
        for k in kinds:
            for fn in ("add_array", "radd_array", "kron_array", "dot_array"):
                yield {"fn": fn, "kind": k, "annot": None, "dt": dt, "shape": "square"}
            # one operator object combined with a view of itself (Gram pairs, symmetrisations): X itself being the operator, a
            # lazy or an eager transpose / adjoint of it
            for view in ("id", "T", "H", "Tctor", "Hctor"):
                for form in ("X@XT", "X@XH", "XT@X", "XH@X", "X+XT", "X+XH", "X-XH", "kron(X,XT)", "kronsum(X,XH)", "XT@X@X", "(XH@X)@(XH@X)"):
                    for an in (None, "SelfAdjoint"):
                        yield {"fn": "selfpair", "kind": k, "annot": an, "dt": dt, "shape": "square", "view": view, "form": form}
    # non-square operands for the functions that admit them
    rk = sorted(rect_instances().keys())
    for k in rk:
        for an in (None, "Stiefel"):
            base = {"kind": k, "annot": an, "dt": "f8", "shape": "tall"}
            for fn in ("transpose", "adjoint", "to_dense"):
                yield dict(base, fn=fn)
            for a in [OMIT, "Auto", "Auto(tol)", "CG", "LSTSQ"]:
                yield dict(base, fn="pinv", alg=a)
            for a in [OMIT, "Auto", "Auto(tol)", "DenseSVD", "Lanczos", "LOBPCG"]:
                yield dict(base, fn="svd", alg=a, k=2)
    for k in rk:
        for view in ("id", "T", "H", "Tctor", "Hctor"):
            for form in ("X@XT", "X@XH", "XT@X", "XH@X", "kron(X,XT)", "(XH@X)@(XH@X)"):
                yield {"fn": "selfpair", "kind": k, "annot": None, "dt": "f8", "shape": "tall", "view": view, "form": form}
    for k1, k2 in itertools.product(rk, rk):
        for fn in ("add", "kron", "dotT"):
            yield {"fn": fn, "kind": k1, "kind2": k2, "annot": None, "annot2": None, "dt": "f8", "shape": "tall"}


def scalar(name):
    return {"int": 3, "float": 0.5, "complex": 1 + 2j, "np0d": np.array(2.0)}[name]


def execute(t, AL):
    """Run the tuple through the public API."""
    from cola import linalg as L
    from cola.linalg.svd.svd import svd
    dtype = np.float64 if t["dt"] == "f8" else np.complex128
    if t.get("big"):
        # more than 1e6 entries: the size-dependent branch of every `Auto` rule re-dispatches on another algorithm object
        # (matrix-free, so nothing big is allocated; the loop tap aborts the iterative algorithm right after the lookup)
        n = 1001
        d = np.linspace(1.0, 2.0, n).astype(dtype)
        A = annotate(cola.ops.LinearOperator(dtype, (n, n), matmat=lambda X, d=d: d[:, None] * X), t["annot"])
    else:
        inst = instances(dtype) if t["shape"] == "square" else rect_instances(dtype)
        A = annotate(inst[t["kind"]](), t["annot"])
    fn = t["fn"]
    if "kind2" in t:
        B2 = annotate(inst[t["kind2"]](), t["annot2"])
        if fn == "dot":
            return A @ B2
        if fn == "dotT":
            return A.T @ B2
        if fn == "add":
            return A + B2
        if fn == "sub":
            return A - B2
        if fn == "kron":
            return cola.kron(A, B2)
        if fn == "kronsum":
            return cola.kronsum(A, B2)
    if fn == "selfpair":
        X = {"id": lambda: A, "T": lambda: A.T, "H": lambda: A.H, "Tctor": lambda: ops.Transpose(A), "Hctor": lambda: ops.Adjoint(A)}[t["view"]]()
        f = t["form"]
        out = {"X@XT": lambda: X @ X.T, "X@XH": lambda: X @ X.H, "XT@X": lambda: X.T @ X, "XH@X": lambda: X.H @ X, "X+XT": lambda: X + X.T,
               "X+XH": lambda: X + X.H, "X-XH": lambda: X - X.H, "kron(X,XT)": lambda: cola.kron(X, X.T), "kronsum(X,XH)": lambda: cola.kronsum(X, X.H),
               "XT@X@X": lambda: X.T @ X @ X, "(XH@X)@(XH@X)": lambda: (X.H @ X) @ (X.H @ X)}[f]()
        return out @ np.ones((out.shape[1], ), dtype=dtype)
    arr = np.ones(A.shape, dtype=dtype)
    if fn == "add_array":
        return A + arr
    if fn == "radd_array":
        return arr + A
    if fn == "kron_array":
        return cola.kron(arr, A)
    if fn == "dot_array":
        return A @ cola.lazify(arr)
    if fn == "transpose":
        return A.T
    if fn == "adjoint":
        return A.H
    if fn == "to_dense":
        return A.to_dense()
    if fn == "neg":
        return -A
    if fn == "mul":
        return scalar(t["scalar"]) * A
    if fn == "rmul":
        return A * scalar(t["scalar"])
    if fn == "div":
        return A / scalar(t["scalar"])
    if fn == "cholesky":
        from cola.linalg.decompositions.decompositions import cholesky
        return cholesky(A)
    if fn == "plu":
        from cola.linalg.decompositions.decompositions import plu
        return plu(A)
    b = np.ones((A.shape[0], 2), dtype=dtype)

    def alg(group, key="alg"):
        return () if t[key] == OMIT else (AL[group][t[key]], )

    if fn == "inv":
        return L.inv(A, *alg("inv")) @ b
    if fn == "solve":
        return L.solve(A, b, *alg("inv"))
    if fn == "pinv":
        return L.pinv(A, *alg("pinv")) @ b
    if fn in ("slogdet", "logdet"):
        f = getattr(L, fn)
        args = alg("log_alg", "log_alg") + (alg("trace_alg", "trace_alg") if t["log_alg"] != OMIT else ())
        return f(A, *args)
    if fn == "slogdet_kw":
        kw = {"trace_alg": AL["trace_alg"]["Exact"]}
        if t["log_alg"] != OMIT:
            kw["log_alg"] = AL["log_alg"][t["log_alg"]]
        return L.slogdet(A, **kw)
    if fn == "diag":
        return L.diag(A, t["k"], *alg("trace_alg")) if t["alg"] != OMIT or t["k"] != 0 else L.diag(A)
    if fn == "trace":
        return L.trace(A, *alg("trace_alg"))
    v = np.ones((A.shape[0], ), dtype=dtype)
    if fn in ("exp", "log", "sqrt", "isqrt"):
        return getattr(L, fn)(A, *alg("unary")) @ v
    if fn == "pow":
        return L.pow(A, 0.5, *alg("unary")) @ v
    if fn == "pow_int":
        return L.pow(A, 3, *alg("unary")) @ v
    if fn == "pow_neg1":
        return L.pow(A, -1, *alg("unary")) @ v
    if fn == "apply_unary":
        return L.apply_unary(np.cos, A, *alg("unary")) @ v
    if fn == "eig":
        if t["alg"] == OMIT:
            return L.eig(A, t["k"]) if t["which"] == OMIT else L.eig(A, t["k"], t["which"])
        return L.eig(A, t["k"], t["which"], AL["eig"][t["alg"]])
    if fn in ("eigmax", "eigmin"):
        return getattr(L, fn)(A, *alg("eig"))
    if fn == "svd":
        return svd(A, t["k"]) if t["alg"] == OMIT else svd(A, t["k"], "LM", AL["svd"][t["alg"]])
    raise ValueError(fn)


def gen(tier, rng, shard, nshards):
    # shards are split between the two registry configurations, and the lattice round-robin inside each half
    half = nshards // 2
    config = "plain" if shard < half else "optional-modules-imported"
    idx, tot = (shard, half) if shard < half else (shard - half, nshards - half)
    j = 0
    for fn in ("inv", "solve", "pinv", "slogdet", "diag", "trace", "exp", "log", "sqrt", "pow", "pow_neg1", "apply_unary", "eig", "eigmax", "eigmin", "svd"):
        for a in (OMIT, "Auto", "Auto(tol)"):
            for annot in (None, "PSD", "SelfAdjoint"):
                j += 1
                if j % tot == idx:
                    yield {"fn": fn, "kind": "BigGeneric", "shape": "square", "dt": "f8", "annot": annot, "alg": a, "log_alg": a, "trace_alg": OMIT, "k": 2 if fn != "diag" else 0,
                           "which": "LM", "big": True, "config": config}
    for i, t in enumerate(lattice(config, tier)):
        if i % tot == idx:
            yield dict(t, config=config)


_STATE = {}


def run_case(ctx, t):
    DISPATCH.install()
    if _STATE.get("config") != t["config"]:
        if t["config"] != "plain":
            import cola.linalg.preconditioning.preconditioners  # noqa  (registers `sqrt`, `inverse` in the shared registry)
            import cola.linalg.tbd.slq  # noqa
            import cola.linalg.tbd.randomized_svd  # noqa
            import cola.linalg.tbd.nullspace  # noqa
        import cola.linalg.svd.svd  # noqa
        _STATE["config"] = t["config"]
        _STATE["algs"] = algs()
    key = "|".join(f"{k}={t[k]}" for k in sorted(t))
    ctx.begin_case(t, sig=key, nontrivial=True)
    ctx.count("function", t["fn"])
    ctx.count("config", t["config"])
    DISPATCH.reset()
    state = np.random.get_state()
    if t.get("big"):
        from harness.looptap import LOOPS
        import signal
        LOOPS.install()
        LOOPS.start(hard_cap=2)

        def _stop(*a):  # the lookups happen first; the numerical work after them is not C04's subject
            raise TimeoutError("big-operator case cut after the dispatch phase")
        old_handler = signal.signal(signal.SIGALRM, _stop)
        signal.alarm(6)
        try:
            out = ctx.call(execute, t, _STATE["algs"])
        finally:
            signal.alarm(0)
            signal.signal(signal.SIGALRM, old_handler)
            LOOPS.stop()
    else:
        out = ctx.call(execute, t, _STATE["algs"])
    np.random.set_state(state)
    if hasattr(out, "type"):
        ctx.count("other_exceptions (outside C04)", out.type)
    errs = list(DISPATCH.errors)
    if not errs:
        ctx.check("lookup", True)
        return
    for e in errs[:3]:
        site = f"{e['function']}({', '.join(e['types'])})"
        preds = {"error": e["error"]}
        an = [a for a in e["annotations"] if a]
        if an:
            preds["annotations"] = "/".join(",".join(a) for a in e["annotations"])
        ctx.check("lookup", False, site=site, preds=preds, detail={"tuple": t, "lookup": e})


def finalize(ctx):
    ctx.notes["rules_selected_distinct"] = len(DISPATCH.rules)
    for rid, c in DISPATCH.rules.items():
        ctx.hist["rule_selected"][rid] += c
    # rules registered in the live table (reported, not judged: dead rules are not a C04 violation)
    from plum import dispatch
    from harness.probes import _tname
    for name, f in dispatch.functions.items():
        f._resolve_pending_registrations()
        for sig in f._resolver.signatures:
            rid = f"{name}({', '.join(_tname(t) for t in sig.types)})" + \
                  (f" p={sig.precedence}" if sig.precedence else "") + (" cond" if sig.condition is not None else "")
            ctx.hist["rule_registered"][rid] += 0
