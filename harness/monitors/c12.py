"""C12 - CG returns the Krylov-optimal iterate and honours its stopping contract (DESIGN 4/C12)."""
import numpy as np

import cola
from harness import payload as P
from harness import spec as S
from harness.core import is_err
from harness.looptap import LOOPS, LoopCapExceeded

SIZES = {"quick": 45, "thorough": 900}
LD = np.longdouble
CLD = np.clongdouble


# ---- workload ------------------------------------------------------------------------------------------------------
def spectrum(rng, n, family, cond):
    if n == 1:
        return [1.0]
    if family == "uniform":
        return [float(x) for x in np.linspace(1.0, cond, n)]
    if family == "log":
        return [float(x) for x in np.logspace(0, np.log10(cond), n)]
    if family == "outliers":
        lam = np.linspace(1.0, 2.0, n)
        lam[-1] = cond
        if n > 3:
            lam[-2] = cond / 2
        return [float(x) for x in lam]
    if family == "clusters":
        c = int(rng.integers(1, 4))
        centers = np.logspace(0, np.log10(cond), c) if c > 1 else np.array([1.0])
        lam = np.array([centers[i % c] * (1 + 1e-9 * (i // c)) for i in range(n)])
        return [float(x) for x in np.sort(lam)]
    if family == "repeated":
        c = int(rng.integers(1, 4))
        vals = np.logspace(0, np.log10(cond), c) if c > 1 else np.array([2.0])
        return [float(vals[i % c]) for i in range(n)]
    raise ValueError(family)


def gen(tier, rng, shard, nshards):
    for i in range(SIZES[tier]):
        n = int(S.pick(rng, [1, 2, 3, 5, 8, 12, 20, 40, 40, 100, 200]))
        dt = S.pick(rng, ["f8", "f8", "c16"])
        family = S.pick(rng, ["uniform", "uniform", "log", "outliers", "clusters", "repeated"])
        cond = float(S.pick(rng, [1.0, 10.0, 1e2, 1e4, 1e6]))
        cols = int(S.pick(rng, [0, 1, 3, 4]))
        if 2 <= n <= 8 and rng.random() < 0.12:
            cols = n  # a square right-hand-side block: as many columns as the operator has rows
        colspec = []
        for c in range(max(cols, 1)):
            colspec.append({"scale_exp": int(S.pick(rng, [-6, 0, 0, 0, 6])), "zero": bool(rng.random() < 0.12)})
        yield_ = {"n": n, "dt": dt, "family": family, "cond": cond, "seed": S.seed(rng), "cols": cols, "colspec": colspec,
               "x0": S.pick(rng, ["none", "none", "zero", "random", "exact"]),
               "precond": S.pick(rng, ["none", "none", "jacobi", "jacobi", "spd", "spd", "nystrom", "nystrom", "tiny-identity", "huge-identity"]),
               "tol": float(S.pick(rng, [1e-12, 1e-10, 1e-8, 1e-6, 1e-4, 1e-2, 1e-1])),
               "max_iters": int(S.pick(rng, [0, 1, 2, 3, 5, 8, 15, 30, n, 2 * n, 1000])),
               "via": S.pick(rng, ["cg", "cg", "cg", "inv"]), "wide_rhs": bool(rng.random() < 0.15), "opscale": float(S.pick(rng, [1.0, 1.0, 1.0, 1e-9, 1e9, 1e-25, 1e25]))}
        if rng.random() < 0.06 and 5 <= n <= 40:
            n_ = n
            bs = [int(S.pick(rng, [b_ for b_ in (2, 3, 4, 6, 7, 9, n_ + 3) if n_ % b_ or b_ > n_])) for _ in range(2)]
            yield_.update(opkind="kernel", bs=bs, dt="f8", opscale=1.0, precond=S.pick(rng, ["none", "jacobi"]), wide_rhs=False, family="uniform", cond=1.0)
        if yield_["opscale"] in (1e-25, 1e25) and yield_["precond"] in ("tiny-identity", "huge-identity", "spd", "nystrom"):
            # (CG guards its divisions with an absolute 1e-40: r^H P r and p^H A p must stay above it while the residual falls by
            # 1/tol, so an operator in extreme units is combined with no preconditioner or with Jacobi, whose units cancel A's)
            yield_["precond"] = S.pick(rng, ["none", "jacobi"])
        yield yield_


KERNEL = {}  # side information of the last build_problem(): the sample points / block sizes of a kernel system matrix


def build_problem(case):
    n, dt = case["n"], case["dt"]
    rng = P.rng_for("c12", case["seed"])
    lam = np.array(spectrum(rng, n, case["family"], case["cond"]))
    cplx = dt in P.CPLX
    Q = P.haar(rng, n, cplx)
    M = (Q * lam) @ Q.conj().T
    M = ((M + M.conj().T) / 2 * case.get("opscale", 1.0)).astype(P.DT[dt])  # CG is scale invariant: operators in tiny / huge units
    lam = lam * case.get("opscale", 1.0)
    KERNEL.clear()
    if case.get("opkind") == "kernel":
        # the system matrix is a blocked, matrix-free kernel operator plus a nugget (block sizes that do not divide n)
        xk = rng.standard_normal((n, 2))
        M = (P.KERNELS["rbf"](xk, xk) + np.eye(n)).astype(P.DT["f8"])
        lam = np.linalg.eigvalsh(M)
        KERNEL.update(x=xk, bs1=int(case["bs"][0]), bs2=int(case["bs"][1]))
    shape = (n, ) if case["cols"] == 0 else (n, case["cols"])
    b = rng.standard_normal(shape) + (1j * rng.standard_normal(shape) if cplx else 0)
    b = b.astype(P.DT[dt])
    if not cplx and case.get("wide_rhs"):
        b = (b + 1j * rng.standard_normal(shape)).astype(np.complex128)  # complex right-hand side for a real operator
    b2 = b.reshape(n, -1).copy()
    for c, cs in enumerate(case["colspec"][:b2.shape[1]]):
        b2[:, c] *= 10.0**cs["scale_exp"]
        if cs["zero"]:
            b2[:, c] = 0
    b = b2.reshape(shape)
    xstar = np.linalg.solve(M.astype(complex if (cplx or np.iscomplexobj(b)) else float), b)
    if case["x0"] == "none":
        x0 = None
    elif case["x0"] == "zero":
        x0 = np.zeros_like(b)
    elif case["x0"] == "exact":
        x0 = xstar.astype(b.dtype)
    else:
        xs_norm = np.linalg.norm(xstar.reshape(n, -1), axis=0)
        xs_norm = np.where(xs_norm == 0, 1.0, xs_norm)  # a zero right-hand side still gets a non-zero guess (answer: exactly 0)
        x0 = (rng.standard_normal(shape) + (1j * rng.standard_normal(shape) if cplx else 0)).astype(b.dtype) * \
            xs_norm.reshape((1, -1) if b.ndim == 2 else ())
    # preconditioner (Hermitian positive definite)
    pk = case["precond"]
    Pm = None
    if pk == "jacobi":
        Pm = np.diag(1.0 / np.diag(M).real).astype(P.DT[dt])
    elif pk == "spd":
        G = rng.standard_normal((n, n)) + (1j * rng.standard_normal((n, n)) if cplx else 0)
        Pm = (G @ G.conj().T / n + np.eye(n)).astype(P.DT[dt])
    elif pk in ("tiny-identity", "huge-identity"):
        # a multiple of the identity: the iterates are those of plain CG, in whatever unit the preconditioner is expressed
        Pm = ((1e-6 if pk.startswith("tiny") else 1e6) * np.eye(n)).astype(P.DT[dt])
    return M, b, x0, xstar, Pm, lam


class Counter:
    def __init__(self):
        self.products = 0
        self.columns = []


def counting_operator(M, counter):
    Kop = None
    if KERNEL and KERNEL["x"].shape[0] == M.shape[0]:
        Kop = cola.ops.Kernel(KERNEL["x"], KERNEL["x"], P.KERNELS["rbf"], KERNEL["bs1"], KERNEL["bs2"])

    def matmat(X):
        counter.products += 1
        counter.columns.append(X.shape[-1] if X.ndim > 1 else 1)
        if Kop is not None:
            return Kop @ X + X  # (the real blocked operator does the product)
        return M @ X
    return cola.ops.LinearOperator(M.dtype, M.shape, matmat=matmat)


# ---- reference optimum in extended precision ----------------------------------------------------------------------------
def a_dot(A, u, v):
    return np.sum(np.conj(u) * (A @ v))


def krylov_optima(M, Pm, b, x0, kmax):
    """x_k^* = argmin ||x - x*||_A over x0 + K_k(P A, P r0), k = 0..kmax, one column, extended precision."""
    cplx = np.iscomplexobj(M) or np.iscomplexobj(b)
    T = CLD if cplx else LD
    A = M.astype(T)
    Pl = None if Pm is None else Pm.astype(T)
    r0 = b.astype(T) - A @ x0.astype(T)
    z = r0 if Pl is None else Pl @ r0
    xs = [x0.astype(T)]
    qs = []
    w = z
    x = x0.astype(T)
    for k in range(kmax):
        v = w.copy()
        for _ in range(2):
            for q in qs:
                v = v - q * a_dot(A, q, v)
        nv = np.sqrt(abs(a_dot(A, v, v)))
        if not np.isfinite(nv) or nv <= 1e-17 * max(float(np.sqrt(abs(a_dot(A, w, w)))), 1e-300):
            break
        q = v / nv
        qs.append(q)
        x = x + q * np.sum(np.conj(q) * r0)
        xs.append(x)
        w = A @ q
        if Pl is not None:
            w = Pl @ w
    return xs


def anorm(M, e):
    e = np.asarray(e)
    return float(np.sqrt(abs(np.sum(np.conj(e) * (M.astype(e.dtype) @ e)))))


# ---- the monitor ------------------------------------------------------------------------------------------------------
def run_cg(ctx, case, M, b, x0, Pm, counter, tol=None, max_iters=None, hard_cap=None):
    from cola.linalg.inverse.cg import cg
    A = counting_operator(M, counter)
    Pop = None
    if Pm is not None:
        Pop = cola.ops.Dense(Pm)
    elif case["precond"] == "nystrom":
        from cola.linalg.preconditioning.preconditioners import NystromPrecond
        Pop = NystromPrecond(cola.ops.Dense(M), rank=max(1, min(M.shape[0] // 2, 10)), key=7)
    tol = case["tol"] if tol is None else tol
    max_iters = case["max_iters"] if max_iters is None else max_iters
    max_iters = P.count_form(max_iters, case["seed"] // 3)
    LOOPS.install()
    LOOPS.start(hard_cap=(max_iters + 5) if hard_cap is None else hard_cap)
    try:
        if case["via"] == "cg":
            if case["seed"] % 3 == 0:  # the documented positional form cg(A, rhs, x0, P, tol, max_iters)
                out = ctx.call(cg, A, b, x0, Pop, tol, max_iters)
            else:
                out = ctx.call(cg, A, b, x0=x0, P=Pop, tol=tol, max_iters=max_iters)
            if not is_err(out):
                x, info = out
        else:
            from cola.linalg import CG, inv
            # the lazy inverse hands the solver a 2-D operand, so the guess is given in that shape too
            x0m = None if x0 is None else np.asarray(x0).reshape(np.asarray(x0).shape[0], -1)
            Ainv = ctx.call(inv, cola.PSD(A), CG(tol=tol, max_iters=max_iters, x0=x0m, P=Pop))
            out = Ainv if is_err(Ainv) else ctx.call(lambda: Ainv @ b)
            if not is_err(out):
                x, info = out, Ainv.info
    finally:
        recs = LOOPS.stop()
    if is_err(out):
        return out, None, None, Pop
    rec = next((r for r in recs if r["body"] == "body_fun" and r["states"] and len(r["states"][0]) == 7), None)
    return np.asarray(x), info, rec, Pop


def run_case(ctx, case):
    M, b, x0, xstar, Pm, lam = build_problem(case)
    n = M.shape[0]
    if case["precond"] == "nystrom" and (n < 4 or case["dt"] in P.CPLX):
        case = dict(case, precond="none")
    ctx.begin_case(case, sig="|".join(f"{k}={case[k]}" for k in ("n", "dt", "family", "cond", "cols", "x0", "precond", "tol", "max_iters", "via")) +
                   "|" + ",".join(f"{c['scale_exp']}{'z' if c['zero'] else ''}" for c in case["colspec"]), nontrivial=True)
    for key in ("family", "x0", "precond", "via"):
        ctx.count(key, case[key])
    ctx.count("cond", f"{case['cond']:g}")
    preds = {"x0": case["x0"], "precond": case["precond"], "complex": case["dt"] in P.CPLX, "multi_rhs": case["cols"] > 1}
    counter = Counter()
    try:
        x, info, rec, Pop = run_cg(ctx, case, M, b, x0, Pm, counter)
    except LoopCapExceeded as e:
        ctx.check("iteration-cap", False, site="cg", preds=preds, detail={"error": str(e), "max_iters": case["max_iters"]})
        return
    if is_err(x):
        ctx.check("returns", False, site="cg", preds=preds, detail={"error": repr(x)})
        return
    ctx.check("returns", True)
    if case["via"] == "inv" and case["precond"] != "nystrom":
        # the lazy inverse has no memory: applied again to a refilled buffer it returns what a fresh inverse returns
        from cola.linalg import CG, inv
        from harness.reuse import reuse_checks
        x0m_ = None if x0 is None else np.asarray(x0).reshape(n, -1)
        bb = b.reshape(n, -1) if case["seed"] % 2 else b
        b_other = (P.rng_for("c12reuse", case["seed"]).standard_normal(bb.shape) * max(float(np.abs(bb).max()), 1e-300)).astype(bb.dtype)
        reuse_checks(ctx, lambda: inv(cola.PSD(cola.ops.Dense(M)), CG(tol=case["tol"], max_iters=case["max_iters"], x0=x0m_, P=Pop)), bb, b_other,
                     "inv(CG)", preds, rel_tol=max(1e-6, 100 * case["tol"]))
    if case["via"] == "inv" and case["precond"] in ("none", "jacobi") and case["cond"] <= 1e3 and float(case.get("opscale", 1.0)) == 1.0 and n <= 60:
        # views of the lazy inverse obtained through CG (run to convergence: a truncated run is not a linear map, so only the
        # converged operator has a transpose): inv(A, CG).T @ b solves A^T x = b, .H @ b solves A^H x = b, b @ inv(A, CG) is the
        # left solve - on complex Hermitian A the transposed system is the conjugated one
        from cola.linalg import CG, inv
        Av = ctx.call(inv, cola.PSD(cola.ops.Dense(M)), CG(tol=1e-13, max_iters=40 * n + 100))
        bw_ = np.asarray(b).astype(complex if (np.iscomplexobj(M) or np.iscomplexobj(b)) else float)
        Mw_ = M.astype(bw_.dtype)
        if not is_err(Av) and float(np.linalg.norm(bw_)) > 0:
            for nm, f, want in (("T", lambda: Av.T @ b, np.linalg.solve(Mw_.T, bw_)), ("H", lambda: Av.H @ b, np.linalg.solve(Mw_.conj().T, bw_)),
                                ("left", lambda: b.T @ Av, np.linalg.solve(Mw_.T, bw_).T), ("T-ctor", lambda: cola.ops.Transpose(Av) @ b, np.linalg.solve(Mw_.T, bw_))):
                g = ctx.call(f)
                if is_err(g):
                    ctx.check("views-of-the-lazy-inverse-solve-the-transposed-system", False, site="inv(CG)", preds=dict(preds, view=nm), detail={"error": repr(g)})
                    continue
                g = np.asarray(g)
                colw = np.linalg.norm(want.reshape(n, -1) if nm != "left" else want.T.reshape(n, -1), axis=0)
                colg = np.linalg.norm((g.reshape(n, -1) if nm != "left" else g.T.reshape(n, -1)) - (want.reshape(n, -1) if nm != "left" else want.T.reshape(n, -1)), axis=0) if g.shape == want.shape else np.inf
                nz = colw > 0
                err = float(np.max(colg[nz] / colw[nz])) if g.shape == want.shape and nz.any() and np.all(np.isfinite(g)) else (0.0 if g.shape == want.shape and np.all(np.isfinite(g)) else np.inf)
                ctx.check("views-of-the-lazy-inverse-solve-the-transposed-system", bool(err <= 1e-6 * max(case["cond"], 1.0)), site="inv(CG)", preds=dict(preds, view=nm),
                          detail={"rel_err": err, "cond": case["cond"], "shape": list(g.shape)})
    if rec is None:
        ctx.inconclusive.append("loop-state tap saw no CG loop")
        return
    cplx = np.iscomplexobj(M)
    wide = complex if (cplx or np.iscomplexobj(b)) else float
    Mw = M.astype(wide)
    b2 = b.reshape(n, -1).astype(wide)
    x2 = np.asarray(x).reshape(n, -1).astype(wide)
    xs2 = xstar.reshape(n, -1)
    x02 = np.zeros_like(b2) if x0 is None else x0.reshape(n, -1).astype(wide)
    ncols = b2.shape[1]
    bn = np.linalg.norm(b2, axis=0)
    states = rec["states"]
    steps = len(states) - 1
    ctx.count("steps", min(steps, 50))
    ok_shape = np.asarray(x).shape == b.shape
    ctx.check("result-shape", bool(ok_shape), site="cg", preds=preds, detail={"got": list(np.asarray(x).shape), "want": list(b.shape)})
    if not ok_shape:
        return
    # (2) stopping contract, judged on the recorded states (logical steps, never wall clock)
    ctx.check("iteration-cap", bool(steps <= case["max_iters"]), site="cg", preds=preds, detail={"steps": steps, "max_iters": case["max_iters"]})
    ctx.check("product-count", bool(counter.products <= case["max_iters"] + 1 + (1 if case["precond"] == "nystrom" else 0)), site="cg", preds=preds,
              detail={"products": counter.products, "max_iters": case["max_iters"]})
    rn = [np.linalg.norm(np.asarray(s[2]).reshape(n, -1), axis=0) for s in states]  # residuals of the *normalised* system
    r0n = rn[0]
    thresh = case["tol"] * (1 + r0n)
    # (a zero right-hand side is iterated in un-normalised form - it still has a residual -A x_k when a non-zero guess was
    # given - and takes part in the stopping test like every other column)
    nonzero = np.ones_like(bn, dtype=bool)
    if steps < case["max_iters"]:
        ok = np.all(rn[-1][nonzero] <= thresh[nonzero] * (1 + 1e-12))
        ctx.check("stopped-early-only-when-converged", bool(ok), site="cg", preds=preds,
                  detail={"final_rel_res": rn[-1], "threshold": thresh, "steps": steps})
    first = next((k for k in range(len(rn)) if np.all(rn[k][nonzero] <= thresh[nonzero])), None)
    if first is not None:
        ctx.check("stops-as-soon-as-converged", bool(steps <= first), site="cg", preds=preds,
                  detail={"steps": steps, "first_converged_state": first})
    # final returned value equals the last state rescaled
    xl = np.asarray(states[-1][0]).reshape(n, -1).astype(wide) * bn[None, :]
    scale = np.maximum(np.linalg.norm(xs2, axis=0), np.linalg.norm(x02, axis=0)) + 1e-300
    ctx.check("returned-is-last-iterate", bool(np.all(np.linalg.norm(xl - x2, axis=0) <= 1e-10 * scale + 1e-300)), site="cg", preds=preds,
              detail={"diff": np.linalg.norm(xl - x2, axis=0)})
    # (3) bookkeeping
    it = info.get("iterations") if isinstance(info, dict) else None
    ctx.check("info-iterations", bool(it in (steps, steps + 1)), site="cg", preds=preds, detail={"reported": it, "observed_steps": steps})
    errs = np.asarray(info.get("errors", [])) if isinstance(info, dict) else np.asarray([])
    means = np.array([float(np.mean(r)) for r in rn])
    ok_err = errs.ndim == 1 and len(errs) >= 1 and np.all(np.isfinite(errs)) and np.all(errs >= 0) and len(errs) <= len(means) + 1
    if errs.ndim == 1 and len(errs) == 0:
        ok_err = steps <= 1  # a history may be empty only when there is nothing to report
    elif ok_err:
        # the history is a contiguous run of the recorded states' mean residuals ending at the final state (the final
        # state may be reported twice: once by the loop test, once after the loop)
        e = errs[:-1] if len(errs) >= 2 and errs[-1] == errs[-2] else errs
        tail = means[len(means) - min(len(e), len(means)):]
        ok_err = len(e) <= len(means) and np.allclose(e, tail, rtol=1e-10, atol=1e-300)
    ctx.check("info-errors", bool(ok_err), site="cg", preds=preds, detail={"errors": errs[-5:], "mean_residuals": means[-5:]})
    # (4) zero right-hand side -> exactly zero
    for c in range(ncols):
        if bn[c] == 0:
            ctx.check("zero-rhs-exact-zero", bool(np.all(x2[:, c] == 0)), site="cg", preds=dict(preds, next_to_nonzero=bool(np.any(bn > 0))),
                      detail={"col": c, "max_abs": float(np.abs(x2[:, c]).max(initial=0.0))})
    # (1) optimality and locally enforced relations, per column
    Pd = None if Pop is None else np.asarray(Pop.to_dense()).astype(wide)
    kmax = min(steps, 30)
    for c in range(ncols):
        if bn[c] == 0:
            continue
        iters = [np.asarray(s[0]).reshape(n, -1)[:, c].astype(wide) * bn[c] for s in states]
        # k = 0 iterate is the caller's guess
        e_init = np.linalg.norm(iters[0] - x02[:, c])
        ctx.check("initial-iterate-is-x0", bool(e_init <= 1e-12 * (np.linalg.norm(x02[:, c]) + 1e-300) + 1e-300), site="cg", preds=preds,
                  detail={"diff": float(e_init), "x0_norm": float(np.linalg.norm(x02[:, c]))})
        e0 = anorm(Mw, xs2[:, c] - x02[:, c])
        if e0 == 0:
            continue
        # recursive residual == true residual
        for k in (0, min(2, steps), steps):
            rk = np.asarray(states[k][2]).reshape(n, -1)[:, c].astype(wide) * bn[c]
            tr = b2[:, c] - Mw @ iters[k]
            ok = np.linalg.norm(rk - tr) <= 1e-8 * case["cond"] * (np.linalg.norm(b2[:, c]) + np.linalg.norm(Mw @ iters[k])) * 1e-3 + \
                1e-6 * np.linalg.norm(b2[:, c])
            ctx.check("recursive-residual-is-true-residual", bool(ok), site="cg", preds=preds,
                      detail={"k": k, "diff": float(np.linalg.norm(rk - tr)), "b": float(np.linalg.norm(b2[:, c]))})
        errsA = [anorm(Mw, xs2[:, c] - it_) for it_ in iters]
        floor = 1e-9 * e0 * max(case["cond"] ** 0.5, 1.0)
        mono = all(errsA[k + 1] <= errsA[k] * (1 + 1e-6) + floor for k in range(len(errsA) - 1))
        ctx.check("A-norm-error-non-increasing", bool(mono), site="cg", preds=preds, detail={"errors": errsA[:8], "floor": floor})
        if kmax >= 1:
            opt = krylov_optima(Mw, Pd, b2[:, c], x02[:, c], kmax)
            worst = 0.0
            for k in range(1, min(kmax, len(opt) - 1) + 1):
                eo = anorm(Mw.astype(CLD if wide is complex else LD), xs2[:, c].astype(CLD if wide is complex else LD) - opt[k])
                if eo <= 1e-8 * e0:
                    break
                # regimes fixed by construction of the input and calibrated on the unchanged code (1800 runs over all
                # families / conds / preconditioners / x0 kinds; worst excess over the optimum): R1 k<=2 anywhere: <1e-7;
                # R1b cond<=1e2, k<=4: <1e-7; R2 uniform spectrum, no preconditioner, x0 none/zero, k<=30: <1e-7.
                # Outside them finite-precision CG legitimately lags the exact optimum (e.g. outliers at cond 1e6 with a
                # random x0: excess 5.4 at k=4; repeated eigenvalues at cond 1e6, random x0: 6e-2 at k=3).
                r1 = k <= 2 or (k <= 4 and case["cond"] <= 1e2)
                r2 = case["family"] == "uniform" and not case.get("opkind") and case["precond"] == "none" and case["x0"] in ("none", "zero") and k <= 30
                r3 = False
                if not (r1 or r2 or r3):
                    continue
                ratio = errsA[k] / eo
                worst = max(worst, ratio - 1)
                delta = 1e-4
                ctx.check("krylov-optimal-iterate", bool(ratio <= 1 + delta), site="cg",
                          preds=dict(preds, regime="R1" if r1 else ("R2" if r2 else "R3")),
                          detail={"k": k, "ratio": ratio, "err_cg": errsA[k], "err_opt": eo, "cond": case["cond"], "family": case["family"]})
            ctx.notes["max_excess_over_optimum_x1e9"] = max(ctx.notes.get("max_excess_over_optimum_x1e9", 0), int(worst * 1e9))
    # (5) linearity in b and independence of columns, with the step count pinned by max_iters
    if steps >= 1 and case["via"] == "cg" and case["x0"] in ("none", "zero"):
        cfac = complex(S.pick(P.rng_for("lin", case["seed"]), [1e-6, 3.0, 1e6, 1e-24, 1e-30, 1e20])) * (np.exp(0.7j) if cplx else 1.0)
        cfac = cfac if cplx else cfac.real
        c2 = Counter()
        # pinned to the first few steps, where finite-precision CG still tracks exact arithmetic (regime R1); later
        # iterates amplify rounding differences between runs by far more than cond
        pin = min(steps, 2)
        try:
            xb, _, rec2, _ = run_cg(ctx, case, M, (b * cfac).astype(b.dtype), x0, Pm, c2, tol=0.0, max_iters=pin)
            xa, _, rec1, _ = run_cg(ctx, case, M, b, x0, Pm, Counter(), tol=0.0, max_iters=pin)
        except LoopCapExceeded:
            xb = None
        if xb is not None and not is_err(xb) and not is_err(xa):
            num = np.linalg.norm(np.asarray(xb).reshape(n, -1) - cfac * np.asarray(xa).reshape(n, -1), axis=0)
            den = abs(cfac) * np.linalg.norm(np.asarray(xa).reshape(n, -1), axis=0) + 1e-300
            ctx.check("linear-in-b", bool(np.all(num <= 1e-11 * max(case["cond"], 100.0) * den)), site="cg", preds=preds,
                      detail={"rel": num / den, "c": cfac})
            if ncols > 1 and not np.all(bn == 0):
                j = int(np.argmax(bn > 0))
                xc, _, _, _ = run_cg(ctx, dict(case, cols=0), M, b2[:, j].astype(b.dtype), None if x0 is None else x0.reshape(n, -1)[:, j], Pm,
                                     Counter(), tol=0.0, max_iters=pin)
                if not is_err(xc):
                    dj = np.linalg.norm(np.asarray(xc) - np.asarray(xa).reshape(n, -1)[:, j])
                    # rounding differences between a 1-column and a k-column product are amplified by at most ~cond
                    ctx.check("columns-independent", bool(dj <= 1e-11 * max(case["cond"], 100.0) * (np.linalg.norm(np.asarray(xc)) + 1e-300)),
                              site="cg", preds=preds,
                              detail={"diff": float(dj), "col": j})
