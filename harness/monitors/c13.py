"""C13 - GMRES returns the residual-minimising iterate of its Krylov space (DESIGN 4/C13)."""
import numpy as np

import cola
from harness import payload as P
from harness import spec as S
from harness.core import is_err
from harness.monitors.c12 import Counter, counting_operator

SIZES = {"quick": 60, "thorough": 1200}


def gen(tier, rng, shard, nshards):
    for i in range(SIZES[tier]):
        n = int(S.pick(rng, [1, 2, 3, 4, 6, 8, 12, 20, 30, 40] + ([80, 150] if tier == "thorough" else [])))
        dt = S.pick(rng, ["f8", "f8", "c16"])
        case = {"n": n, "dt": dt, "normal": bool(rng.random() < 0.4), "seed": S.seed(rng), "cols": int(S.pick(rng, [0, 1, 3])),
                "rhs": S.pick(rng, ["generic", "generic", "eigvec", "few-eigvecs"]), "x0": S.pick(rng, ["none", "none", "zero", "random"]),
                "tol": float(S.pick(rng, [1e-12, 1e-12, 1e-8, 1e-6])), "via": S.pick(rng, ["gmres", "gmres", "inv"]),
                "ms": S.pick(rng, ["sweep", "sweep", "beyond"]), "wide_rhs": bool(rng.random() < 0.2), "narrow_rhs": S.pick(rng, [None, None, None, "int", "bool", "single"]),
                "colscale": S.pick(rng, [None, None, None, "tiny", "mixed"]), "opscale": float(S.pick(rng, [1.0, 1.0, 1.0, 1e-9, 1e9]))}
        if 2 <= n <= 8 and rng.random() < 0.12:
            case["cols"] = n  # a square right-hand-side block: as many columns as the operator has rows
        if rng.random() < 0.05:
            # a matrix-free operator whose product hands back a *view* of its operand (the exchange matrix, X -> X[::-1]): the
            # routine must not update its working vector in place
            case.update(opview=True, rhs="generic", colscale=None, opscale=1.0, narrow_rhs=None, wide_rhs=False, n=int(S.pick(rng, [2, 3, 4, 6, 8])), normal=True)
        if not case.get("opview") and rng.random() < 0.15:
            # right-hand-side columns living in two invariant subspaces on which the operator acts at very different scales
            # (every column sees one scale only, but the columns of one call see different ones)
            # Kept small and normal: rounding couples the two subspaces at eps*scale and every further product amplifies the
            # coupling by the scale ratio, so only a few steps at scale 1e2 are numerically the exact-arithmetic iteration.
            case.update(rhs="scale-separated", cols=3, x0=S.pick(rng, ["none", "zero"]), scale=float(S.pick(rng, [100.0, 300.0])),
                        tol=1e-3, n=int(S.pick(rng, [2, 3, 4, 5, 6, 8])), normal=True)
        yield case


LAST = {}  # side information of the last build() (effective condition number of the scale-separated family)


def build(case):
    n, dt = case["n"], case["dt"]
    rng = P.rng_for("c13", case["seed"])
    cplx = dt in P.CPLX
    # eigenvalues in the right half plane with moduli in [1, 3]
    if cplx:
        lam = (1 + 2 * rng.random(n)) * np.exp(1j * rng.uniform(-1.2, 1.2, size=n))
    else:
        lam = np.zeros(n, dtype=complex)
        i = 0
        while i < n:
            m = 1 + 2 * rng.random()
            if i + 1 < n and rng.random() < 0.5:
                a = rng.uniform(0.2, 1.2)
                lam[i], lam[i + 1] = m * np.exp(1j * a), m * np.exp(-1j * a)
                i += 2
            else:
                lam[i] = m
                i += 1
    sep = case["rhs"] == "scale-separated" and n >= 2
    if sep:
        h = n // 2
        if not cplx and abs(lam[h - 1].imag) > 0 and lam[h - 1].imag > 0:  # do not split a conjugate pair
            h = h + 1 if h + 1 < n else h - 1
        h = max(1, min(n - 1, h))
        if not cplx and abs(lam[h - 1].imag) > 0 and lam[h - 1].imag > 0:
            lam = np.sort(np.abs(lam)).astype(complex)  # (tiny n: fall back to a real positive spectrum)
        lam[:h] = lam[:h] * case["scale"]
    U = P.haar(rng, n, cplx)
    if case["normal"] and cplx:
        V = U
    elif case["normal"]:
        # real normal matrix: orthogonal similarity of the real block-diagonal form
        V = U
    else:
        W = P.haar(rng, n, cplx)
        V = (U * np.linspace(1.0, 3.0, n)) @ W.conj().T
    if cplx:
        M = (V * lam) @ np.linalg.inv(V)
        evecs = V
    else:
        Bk = np.zeros((n, n))
        i = 0
        while i < n:
            if abs(lam[i].imag) > 0:
                Bk[i, i] = Bk[i + 1, i + 1] = lam[i].real
                Bk[i, i + 1], Bk[i + 1, i] = lam[i].imag, -lam[i].imag
                i += 2
            else:
                Bk[i, i] = lam[i].real
                i += 1
        M = V @ Bk @ np.linalg.inv(V)
        evecs = None
    M = (M * case.get("opscale", 1.0)).astype(P.DT[dt])  # the routines are scale invariant: operators in tiny / huge units
    if case.get("opview"):
        M = np.eye(n)[::-1].copy().astype(P.DT[dt])
    cols = max(case["cols"], 1)
    degree = None
    LAST.clear()
    if sep:
        groups = [np.arange(0, h), np.arange(h, n)]
        b = np.zeros((n, cols), dtype=complex)
        for c in range(cols):
            g = groups[c % 2]
            b[:, c] = V[:, g] @ (rng.standard_normal(len(g)) + (1j * rng.standard_normal(len(g)) if cplx else 0))
        if not cplx:
            b = b.real
        degree = max(h, n - h)
        LAST["sep"] = True
    elif case["rhs"] == "generic" or n == 1:
        b = rng.standard_normal((n, cols)) + (1j * rng.standard_normal((n, cols)) if cplx else 0)
    else:
        d = 1 if case["rhs"] == "eigvec" else int(rng.integers(2, max(3, min(4, n)) + 1))
        d = min(d, n)
        w, E = np.linalg.eig(M.astype(complex))
        b = np.zeros((n, cols), dtype=complex)
        degree = d
        for c in range(cols):
            if cplx:
                idx = rng.choice(n, size=d, replace=False)
                b[:, c] = E[:, idx] @ (rng.standard_normal(d) + 1j * rng.standard_normal(d))
            else:
                # real invariant subspace of dimension d: real eigenvectors and (Re, Im) of complex pairs
                vecs = []
                order = list(rng.permutation(n))
                for j in order:
                    if len(vecs) >= d:
                        break
                    if abs(w[j].imag) < 1e-12:
                        vecs.append(E[:, j].real)
                    elif len(vecs) + 2 <= d:
                        vecs += [E[:, j].real, E[:, j].imag]
                if len(vecs) < d:
                    vecs = [E[:, j].real for j in order if abs(w[j].imag) < 1e-12][:d] or vecs
                degree = max(len(vecs), degree if c > 0 else 0)
                b[:, c] = np.array(vecs).T @ rng.standard_normal(len(vecs))
        if not cplx:
            b = b.real
    b = b.astype(P.DT[dt])
    if not cplx and case.get("wide_rhs") and case["rhs"] == "generic":
        b = (b + 1j * rng.standard_normal(b.shape)).astype(np.complex128)  # complex right-hand side for a real operator
    cs = case.get("colscale")
    if cs == "tiny":
        b = b * 1e-13  # a right-hand side of tiny norm: the solve is linear in b, every oracle is relative to ||r0|| per column
    elif cs == "mixed":
        b = b * np.resize(np.array([1e-12, 1.0, 1e8]), b.shape[1])[None, :]
    nr = case.get("narrow_rhs")
    if nr and case["rhs"] == "generic" and not cs and not (not cplx and case.get("wide_rhs")) and case["x0"] in ("none", "zero"):
        # a right-hand side of a *narrower* kind than the working precision: integers, booleans, single precision (all legal
        # operands; the solve runs in the promoted dtype)
        if nr == "int" and not cplx:
            b = np.round(3 * b).astype(np.int64)
            b[0] = np.where(b[0] == 0, 1, b[0])
        elif nr == "bool" and not cplx:
            b = b > 0
            b[0] = True
        else:
            b = b.astype(np.complex64 if cplx else np.float32)
    if case["cols"] == 0:
        b = b[:, 0]
    if case["x0"] == "none":
        x0 = None
    elif case["x0"] == "zero":
        x0 = np.zeros_like(b)
    else:
        x0 = (rng.standard_normal(b.shape) + (1j * rng.standard_normal(b.shape) if cplx else 0)).astype(b.dtype)
        x0 = x0 * (np.linalg.norm(b.reshape(n, -1), axis=0).reshape((1, -1) if b.ndim == 2 else ()) if cs else 1.0)
        degree = None  # the initial residual is generic again
    return M, b, x0, degree


def min_residual(M, b, x0, m):
    """min ||b - A x|| over x0 + K_m(A, r0) (orthonormal Krylov basis with full re-orthogonalisation, dense lstsq)."""
    r0 = b - M @ x0
    nr0 = np.linalg.norm(r0)
    if nr0 == 0 or m == 0:
        return nr0
    Q = [r0 / nr0]
    for j in range(m - 1):
        w = M @ Q[-1]
        for _ in range(2):
            for q in Q:
                w = w - q * np.vdot(q, w)
        nw = np.linalg.norm(w)
        if nw <= 1e-13 * np.linalg.norm(M @ Q[-1]):
            break
        Q.append(w / nw)
    K = np.array(Q).T
    y, *_ = np.linalg.lstsq(M @ K, r0, rcond=None)
    return float(np.linalg.norm(r0 - M @ K @ y))


def run_gmres(ctx, case, M, b, x0, m, counter):
    A = counting_operator(M, counter)
    if case.get("opview"):
        A = cola.ops.LinearOperator(M.dtype, M.shape, matmat=lambda X: X[::-1])
    m = P.count_form(m, case["seed"] // 3)
    if case["via"] == "gmres":
        from cola.linalg.inverse.gmres import gmres
        if case["seed"] % 3 == 0:  # the documented positional form gmres(A, rhs, x0, max_iters, tol)
            out = ctx.call(gmres, A, b, x0, m, case["tol"])
        else:
            out = ctx.call(gmres, A, b, x0=x0, max_iters=m, tol=case["tol"])
        return out if is_err(out) else np.asarray(out[0])
    from cola.linalg import GMRES, inv
    x0m = None if x0 is None else np.asarray(x0).reshape(M.shape[0], -1)
    Ainv = ctx.call(inv, A, GMRES(max_iters=m, tol=case["tol"], x0=x0m))
    if is_err(Ainv):
        return Ainv
    out = ctx.call(lambda: Ainv @ b)
    return out if is_err(out) else np.asarray(out)


def run_case(ctx, case):
    M, b, x0, degree = build(case)
    n = M.shape[0]
    cplx = np.iscomplexobj(M)
    wide = complex if (cplx or np.iscomplexobj(b) or (x0 is not None and np.iscomplexobj(x0))) else float
    Mw = M.astype(wide)
    kappa = float(np.linalg.cond(Mw))
    # (the scale-separated family needs a scale ratio >= 1e2 by construction: its regime is kappa <= 1e3 with n <= 8)
    if kappa > (1e3 if LAST.get("sep") else 1e2):
        ctx.note("skipped_out_of_regime_cond")
        return
    ctx.begin_case(case, sig="|".join(f"{k}={case[k]}" for k in ("n", "dt", "normal", "cols", "rhs", "x0", "tol", "via", "ms")), nontrivial=True)
    for key in ("rhs", "x0", "via", "normal"):
        ctx.count(key, case[key])
    b2 = b.reshape(n, -1).astype(wide)
    x02 = np.zeros_like(b2) if x0 is None else x0.reshape(n, -1).astype(wide)
    ncols = b2.shape[1]
    bn = np.linalg.norm(b2, axis=0)
    r0n = np.linalg.norm(b2 - Mw @ x02, axis=0)
    preds = {"rhs": case["rhs"], "x0": case["x0"], "complex": cplx, "multi_rhs": ncols > 1, "via": case["via"]}
    if case["ms"] == "sweep":
        ms = sorted(set([1, 2, 3, max(1, n // 2), max(1, n - 1), n]))
    else:
        ms = sorted(set([max(1, n - 1), n, n + 1, n + 3, 2 * n + 1]))
    ms = [m for m in ms if m >= 1][:6]
    if case["via"] == "inv":
        # the lazy inverse has no memory: applied again to a refilled buffer it returns what a fresh inverse returns
        from cola.linalg import GMRES, inv
        from harness.reuse import reuse_checks
        m_ = ms[len(ms) // 2]
        x0m_ = None if x0 is None else np.asarray(x0).reshape(n, -1)
        bb = b.reshape(n, -1) if case["seed"] % 2 else b
        b_other = (P.rng_for("c13reuse", case["seed"]).standard_normal(bb.shape) * max(float(np.abs(bb).max()), 1e-300)).astype(bb.dtype)
        reuse_checks(ctx, lambda: inv(cola.ops.Dense(M), GMRES(max_iters=m_, tol=case["tol"], x0=x0m_)), bb, b_other, "inv(GMRES)", preds)
    if case["via"] == "inv" and n <= 40 and not case.get("opview") and np.all(np.isfinite(b2)) and float(np.linalg.norm(b2)) > 0 \
            and M.dtype.kind in "fc" and M.dtype.itemsize >= 8 and np.linalg.cond(Mw) <= 1e3:
        # views of the lazy inverse obtained through GMRES run to the full dimension (the converged operator is the inverse
        # matrix to rounding): .T @ b solves A^T x = b, .H @ b solves A^H x = b, b @ inv(A, GMRES) is the left solve
        from cola.linalg import GMRES, inv
        bv = np.asarray(b, dtype=M.dtype if (np.iscomplexobj(M) or not np.iscomplexobj(b)) else b.dtype)
        if np.asarray(b).dtype.kind in "fc":
            bv = np.asarray(b)
        Av = ctx.call(inv, cola.ops.Dense(M), GMRES(max_iters=n + 2, tol=1e-13))
        bw_ = bv.astype(wide)
        if not is_err(Av):
            for nm, f, want in (("T", lambda: Av.T @ bv, np.linalg.solve(Mw.T, bw_)), ("H", lambda: Av.H @ bv, np.linalg.solve(Mw.conj().T, bw_)),
                                ("left", lambda: bv.T @ Av, np.linalg.solve(Mw.T, bw_).T)):
                g = ctx.call(f)
                if is_err(g):
                    ctx.check("views-of-the-lazy-inverse-solve-the-transposed-system", False, site="inv(GMRES)", preds=dict(preds, view=nm), detail={"error": repr(g)})
                    continue
                g = np.asarray(g)
                if g.shape != want.shape or not np.all(np.isfinite(g)):
                    err = np.inf
                else:
                    gw, ww = (g.reshape(n, -1), want.reshape(n, -1)) if nm != "left" else (g.T.reshape(n, -1), want.T.reshape(n, -1))
                    err = float(np.max(np.linalg.norm(gw - ww, axis=0) / np.maximum(np.linalg.norm(ww, axis=0), 1e-300)))
                ctx.check("views-of-the-lazy-inverse-solve-the-transposed-system", bool(err <= 1e-4), site="inv(GMRES)", preds=dict(preds, view=nm),
                          detail={"rel_err": err, "shape": list(g.shape)})
    prev = None
    eps = 2.3e-16
    for m in ms:
        counter = Counter()
        x = run_gmres(ctx, case, M, b, x0, m, counter)
        p = dict(preds, m_class="m<n" if m < n else ("m=n" if m == n else "m>n"))
        if is_err(x):
            ctx.check("returns", False, site="gmres", preds=p, detail={"error": repr(x), "m": m, "n": n})
            continue
        ctx.check("returns", True)
        if x.shape != b.shape:
            ctx.check("result-shape", False, site="gmres", preds=p, detail={"got": list(x.shape), "want": list(b.shape)})
            continue
        ctx.count("m_class", p["m_class"])
        xr = x.reshape(n, -1).astype(wide)
        if not np.all(np.isfinite(xr)):
            ctx.check("finite", False, site="gmres", preds=p, detail={"m": m, "n": n})
            continue
        res = np.linalg.norm(b2 - Mw @ xr, axis=0)
        # one product for the initial residual + at most m Arnoldi products (each product serves all columns at once)
        ctx.check("product-count", bool(counter.products <= m + 1), site="gmres", preds=p, detail={"products": counter.products, "m": m})
        slack = 1e3 * eps * kappa * kappa * (bn + np.linalg.norm(Mw, 2) * np.linalg.norm(xr, axis=0)) + 100 * case["tol"] * r0n
        ctx.check("not-above-initial-residual", bool(np.all(res <= r0n * (1 + 1e-10) + slack)), site="gmres", preds=p,
                  detail={"res": res, "initial": r0n, "m": m})
        opts = np.array([min_residual(Mw, b2[:, c], x02[:, c], min(m, n)) for c in range(ncols)])
        judged = opts >= 1e-6 * np.maximum(r0n, 1e-300)
        if np.any(judged):
            ok = np.all(res[judged] <= opts[judged] * (1 + 1e-6) + slack[judged])
            ctx.check("minimal-residual", bool(ok), site="gmres", preds=p,
                      detail={"res": res, "reference_min": opts, "m": m, "n": n, "kappa": kappa})
        else:
            ctx.note("minimal_residual_skipped_below_floor")
        exact_at = n if degree is None else min(degree, n)
        # "zero to rounding" for this algorithm (single-pass modified Gram-Schmidt + normal equations of the small
        # problem): calibrated on the unchanged code, worst observed residual at/after exhaustion 1e-7 * ||r0|| -> 1e-5
        floor = 1e-5 * r0n
        if m >= exact_at:
            ctx.check("zero-residual-at-full-degree", bool(np.all(res <= slack + floor)), site="gmres",
                      preds=dict(p, early_breakdown=degree is not None and degree < n),
                      detail={"res": res, "degree": exact_at, "m": m, "n": n, "initial": r0n})
        if prev is not None:
            ctx.check("non-increasing-in-m", bool(np.all(res <= prev[1] * (1 + 1e-8) + slack + floor)), site="gmres", preds=p,
                      detail={"m": m, "res": res, "prev_m": prev[0], "prev_res": prev[1]})
        prev = (m, res)
