"""C18 - operators are persistent values: inputs never mutated, flatten round-trips (DESIGN 4/C18)."""
import itertools
import json
import os
import subprocess
import sys

import numpy as np

import cola
from cola import ops
from harness import build as B
from harness import payload as P
from harness import refmodel as R
from harness import spec as S
from harness.core import is_err
from harness.probes import array_hash

HERE = os.path.dirname(os.path.dirname(os.path.dirname(os.path.abspath(__file__))))
N = 4


# ---- the pool: one operator of every kind (square 4x4 unless the kind is rectangular by nature) -------------------------------
def pool_specs(dt="f8"):
    D = lambda s, m=N, n=N: {"k": "Dense", "shape": [m, n], "dt": dt, "seed": s}  # noqa
    spd = {"k": "Annot", "name": "PSD", "arg": {"k": "Dense", "shape": [N, N], "dt": dt, "seed": 3, "gen": "herm", "eigs": [1.0, 1.5, 2.0, 3.0]}}
    return {
        "Dense": D(1), "DensePSD": spd, "DenseRect": D(2, 5, 3),
        "DenseFortran": dict(D(4), layout="F"), "DenseView": dict(D(5), layout="view"),
        "Triangular": {"k": "Triangular", "n": N, "dt": dt, "seed": 6, "lower": True, "diag": [1.0, 2.0, -1.0, 1.5]},
        "Sparse": {"k": "Sparse", "shape": [N, N], "dt": dt, "seed": 7, "nnz": 7, "sorted": False, "dups": False},
        "ScalarMul": {"k": "ScalarMul", "n": N, "dt": dt, "c": 2.0}, "Identity": {"k": "Identity", "n": N, "dt": dt},
        "Product": {"k": "Product", "via": "ctor", "args": [D(8), D(9)]}, "Sum": {"k": "Sum", "via": "ctor", "args": [D(10), {"k": "Diagonal", "n": N, "dt": dt, "seed": 11}]},
        "Kronecker": {"k": "Kronecker", "via": "ctor", "args": [D(12, 2, 2), D(13, 2, 2)]},
        "KronSum": {"k": "KronSum", "via": "ctor", "args": [D(14, 2, 2), D(15, 2, 2)]},
        "BlockDiag": {"k": "BlockDiag", "via": "ctor", "mult": [2, 1], "args": [D(16, 1, 1), D(17, 2, 2)]},
        "Diagonal": {"k": "Diagonal", "n": N, "dt": dt, "vals": [1.0, 2.0, 3.0, 1.5]},
        "Tridiagonal": {"k": "Tridiagonal", "n": N, "dt": dt, "seed": 18, "dominant": True},
        "Transpose": {"k": "Transpose", "via": "ctor", "arg": D(19)}, "Adjoint": {"k": "Adjoint", "via": "ctor", "arg": D(20)},
        "SlicedSlices": {"k": "Sliced", "via": "ctor", "slices": [{"s": [0, 4, None]}, {"s": [1, 5, None]}], "arg": D(21, 5, 6)},
        "SlicedArrays": {"k": "Sliced", "via": "ctor", "slices": [{"i": [0, 2, 3, 1]}, {"i": [4, 0, 1, 2]}], "arg": D(22, 5, 6)},
        "SlicedPermCols": {"k": "Sliced", "via": "ctor", "slices": [{"s": [0, 4, None]}, {"i": [2, 0, 3, 1]}], "arg": D(31, 5, 4)},
        "SlicedPermRows": {"k": "Sliced", "via": "ctor", "slices": [{"i": [3, 1, 0, 2]}, {"s": [0, 4, None]}], "arg": D(32, 4, 6)},
        "Permutation": {"k": "Permutation", "perm": [2, 0, 3, 1], "dt": dt},
        "Concatenated": {"k": "Concatenated", "axis": 0, "args": [D(23, 1, 4), D(24, 3, 4)]},
        "Householder": {"k": "Householder", "n": N, "dt": dt, "seed": 25, "unit": True},
        "Kernel": {"k": "Kernel", "n1": N, "n2": N, "d": 2, "dt": dt, "seed": 26, "fn": "rbf", "bs1": 2, "bs2": 3},
        "FFT": {"k": "FFT", "n": N, "dt": "c16"}, "Jacobian": {"k": "Jacobian", "shape": [N, N], "dt": dt, "seed": 27},
        "Hessian": {"k": "Hessian", "n": N, "dt": dt, "seed": 28}, "Generic": {"k": "Generic", "shape": [N, N], "dt": dt, "seed": 29},
        "NoDispatch": {"k": "NoDispatch", "arg": D(30)},
        # annotated members of kinds that have no transpose rule of their own (their .T / .H are lazy wrappers that *infer*
        # annotations from the wrapped operator: the inference must not write into the wrapped operator's own set)
        "StiefelGeneric": {"k": "Annot", "name": "Stiefel", "arg": {"k": "Generic", "shape": [5, 3], "dt": dt, "seed": 33, "gen": "orth"}},
        "StiefelKron": {"k": "Kronecker", "via": "ctor", "args": [{"k": "Annot", "name": "Stiefel", "arg": dict(D(34, 2, 2), gen="orth")},
                                                                   {"k": "Annot", "name": "Stiefel", "arg": dict(D(35, 2, 2), gen="orth")}]},
        "UnitaryGeneric": {"k": "Annot", "name": "Unitary", "arg": {"k": "Generic", "shape": [N, N], "dt": dt, "seed": 36, "gen": "orth"}},
        "SelfAdjointGeneric": {"k": "Annot", "name": "SelfAdjoint", "arg": {"k": "Generic", "shape": [N, N], "dt": dt, "seed": 37, "gen": "herm"}},
        # composites whose first / last part hands its operand back unchanged (Identity @ x is x itself): an in-place
        # accumulation in the composite would then write into the caller's array
        "SumIdentityFirst": {"k": "Sum", "via": "ctor", "args": [{"k": "Identity", "n": N, "dt": dt}, D(40)]},
        "SumIdentityLast": {"k": "Sum", "via": "ctor", "args": [D(41), {"k": "Identity", "n": N, "dt": dt}]},
        "SumIdentityFirst3": {"k": "Sum", "via": "ctor", "args": [{"k": "Identity", "n": N, "dt": dt}, D(42), {"k": "Diagonal", "n": N, "dt": dt, "seed": 43}]},
        "ProductIdentityFirst": {"k": "Product", "via": "ctor", "args": [{"k": "Identity", "n": N, "dt": dt}, D(44)]},
        "ProductIdentityLast": {"k": "Product", "via": "ctor", "args": [D(45), {"k": "Identity", "n": N, "dt": dt}]},
        "KronIdentities": {"k": "Kronecker", "via": "ctor", "args": [{"k": "Identity", "n": 2, "dt": dt}, {"k": "Identity", "n": 2, "dt": dt}]},
        "SumKronIdentitiesFirst": {"k": "Sum", "via": "ctor", "args": [
            {"k": "Kronecker", "via": "ctor", "args": [{"k": "Identity", "n": 2, "dt": dt}, {"k": "Identity", "n": 2, "dt": dt}]}, D(46)]},
        "BlockDiagIdentityFirst": {"k": "BlockDiag", "via": "ctor", "mult": [1, 1], "args": [{"k": "Identity", "n": 2, "dt": dt}, D(47, 2, 2)]},
        # composites of slices obtained by indexing (the parametric class of such a composite does not say what was sliced): over
        # a matrix-free operator they hold no array parameter at all, over a Dense operator they hold its matrix
        "SumOfSlicesMatrixFree": {"k": "Sum", "via": "fn", "args": [{"k": "Sliced", "via": "fn", "slices": [{"s": [0, 3, None]}, {"s": [1, 4, None]}], "arg": {"k": "Generic", "shape": [N, N], "dt": dt, "seed": 60}},
                                                                       {"k": "Sliced", "via": "fn", "slices": [{"s": [1, 4, None]}, {"s": [0, 3, None]}], "arg": {"k": "Generic", "shape": [N, N], "dt": dt, "seed": 61}}]},
        "SumOfSlicesDense": {"k": "Sum", "via": "fn", "args": [{"k": "Sliced", "via": "fn", "slices": [{"s": [0, 3, None]}, {"s": [1, 4, None]}], "arg": D(62)},
                                                                  {"k": "Sliced", "via": "fn", "slices": [{"s": [1, 4, None]}, {"s": [0, 3, None]}], "arg": D(63)}]},
        "ProductOfSlicesMatrixFree": {"k": "Product", "via": "fn", "args": [{"k": "Sliced", "via": "fn", "slices": [{"s": [0, 3, None]}, {"s": [1, 4, None]}], "arg": {"k": "Generic", "shape": [N, N], "dt": dt, "seed": 64}},
                                                                               {"k": "Sliced", "via": "fn", "slices": [{"s": [1, 4, None]}, {"s": [0, 3, None]}], "arg": {"k": "Generic", "shape": [N, N], "dt": dt, "seed": 65}}]},
        "ProductOfSlicesDense": {"k": "Product", "via": "fn", "args": [{"k": "Sliced", "via": "fn", "slices": [{"s": [0, 3, None]}, {"s": [1, 4, None]}], "arg": D(66)},
                                                                          {"k": "Sliced", "via": "fn", "slices": [{"s": [1, 4, None]}, {"s": [0, 3, None]}], "arg": D(67)}]},
        "GenericFlip": {"k": "Generic", "shape": [N, N], "dt": dt, "seed": 50, "gen": "flip"},  # product returns a view of the operand
        # the same kinds built from other legal argument forms: a NumPy scalar / 0-d array instead of a Python float
        "ScalarMulNpScalar": {"k": "ScalarMul", "n": N, "dt": dt, "c": 2.0, "cform": "npscalar"},
        "ScalarMulArr0": {"k": "ScalarMul", "n": N, "dt": dt, "c": 2.0, "cform": "arr0"},
        "ScaledNpScalar": {"k": "Scaled", "c": 3.0, "cform": "npscalar", "arg": D(51)},
        "SumFlipFirst": {"k": "Sum", "via": "ctor", "args": [{"k": "Generic", "shape": [N, N], "dt": dt, "seed": 51, "gen": "flip"}, D(52)]},
        "PSDKron": {"k": "Kronecker", "via": "ctor", "args": [
            {"k": "Annot", "name": "PSD", "arg": dict(D(38, 2, 2), gen="herm", eigs=[1.0, 2.0])},
            {"k": "Annot", "name": "PSD", "arg": dict(D(39, 2, 2), gen="herm", eigs=[1.5, 3.0])}]},
    }


def build_member(spec, owned):
    if spec.get("cform"):
        cdt = np.dtype(P.DT[spec.get("dt", "f8")] if spec["k"] == "ScalarMul" else P.DT[spec["arg"]["dt"]])
        c = cdt.type(spec["c"]) if spec["cform"] == "npscalar" else np.array(spec["c"], dtype=cdt)
        if spec["k"] == "ScalarMul":
            return ops.ScalarMul(c, (spec["n"], spec["n"]), dtype=cdt)
        return c * B.build(spec["arg"], owned)
    if spec["k"] == "Dense" and spec.get("layout"):
        A0 = P.arrays(spec)["A"]
        if spec["layout"] == "F":
            arr = np.asfortranarray(A0)
        else:
            big = np.zeros((2 * N, 2 * N), dtype=A0.dtype)
            big[::2, ::2] = A0
            owned.append(big)
            arr = big[::2, ::2]  # non-contiguous view of a caller-owned buffer
        owned.append(arr)
        return ops.Dense(arr)
    return B.build(spec, owned)


# ---- the alphabet of public operations ---------------------------------------------------------------------------------------
class Aux:
    """Caller-owned auxiliary arrays handed to the operations (all hashed before / after)."""
    def __init__(self, A, seed):
        m, n = A.shape
        dt = P.code_of(np.dtype(A.dtype)) if np.dtype(A.dtype).kind in "fc" else "f8"
        self.x = P.operand(seed, (n, ), dt, "normal")
        self.X = P.operand(seed + 1, (n, 2), dt, "normal")
        self.y = P.operand(seed + 2, (m, ), dt, "normal")
        self.Y = P.operand(seed + 3, (2, m), dt, "normal")
        self.x0 = P.operand(seed + 4, (n, ), dt, "normal")
        self.X0 = P.operand(seed + 4, (n, 2), dt, "normal")
        self.v = P.operand(seed + 5, (n, ), dt, "normal")
        self.Pm = (np.eye(n) * 0.5).astype(A.dtype)
        self.rows = np.array([1, 0, 2][:m])
        self.cols = np.array([0, 2, 1][:n])
        # index arrays with negative entries (aliases of positions counted from the end; the arrays stay the caller's)
        self.rowsn = np.array([-1, 0, -2][:m])
        self.colsn = np.array([1, -1, 0][:n])
        # operands of a wider dtype than the operator (complex for a real operator, double for a single-precision one)
        wide = {"f4": "f8", "f8": "c16", "c8": "c16", "c16": "c16"}[dt]
        self.xw = P.operand(seed + 6, (n, ), wide, "normal")
        self.Yw = P.operand(seed + 7, (2, m), wide, "normal")
        self.arrays = [self.x, self.X, self.y, self.Y, self.x0, self.X0, self.v, self.Pm, self.rows, self.cols, self.rowsn, self.colsn, self.xw, self.Yw]
        # caller-owned algorithm objects, shared by every operation of a history (an options object is a value too: using it
        # for one call must not change what the next call with the same object does)
        from cola import linalg as L
        self.alg_lanczos = L.Lanczos(start_vector=self.v, max_iters=25, tol=1e-10, key=5)
        self.alg_arnoldi = L.Arnoldi(start_vector=self.v, max_iters=25, tol=1e-10, key=5)
        self.alg_cg = L.CG(tol=1e-8, max_iters=20, x0=self.X0, P=ops.Dense(self.Pm))
        self.alg_gmres = L.GMRES(tol=1e-8, max_iters=6, x0=self.X0)
        self.alg_hutch = L.Hutch(key=3, max_iters=2, tol=0.5)
        self.alg_auto = L.Auto(tol=1e-9, max_iters=50, key=11)
        self.algs = [self.alg_lanczos, self.alg_arnoldi, self.alg_cg, self.alg_gmres, self.alg_hutch, self.alg_auto]

    def alg_fields(self):
        def enc(v):
            if isinstance(v, np.ndarray):
                return array_hash(v)
            if isinstance(v, ops.LinearOperator):
                return type(v).__name__ + ":" + array_hash(np.asarray(v.to_dense()))
            return repr(v)
        return [[type(a).__name__] + sorted((k, enc(v)) for k, v in vars(a).items()) for a in self.algs]


def alphabet():
    from cola import linalg as L
    from cola.linalg.decompositions.arnoldi import arnoldi
    from cola.linalg.decompositions.decompositions import cholesky, plu
    from cola.linalg.decompositions.lanczos import lanczos
    from cola.linalg.inverse.cg import cg
    from cola.linalg.inverse.gmres import gmres
    from cola.linalg.svd.svd import svd
    sq = "square"
    A_ = {
        "matvec": (None, lambda A, a: A @ a.x), "matmat": (None, lambda A, a: A @ a.X),
        "rmatvec": (None, lambda A, a: a.y @ A), "rmatmat": (None, lambda A, a: a.Y @ A),
        "matvec_wide": (None, lambda A, a: A @ a.xw), "rmatmat_wide": (None, lambda A, a: a.Yw @ A),
        "T": (None, lambda A, a: A.T), "H": (None, lambda A, a: A.H), "T_product": (None, lambda A, a: A.T @ a.y),
        "H_dense": (None, lambda A, a: A.H.to_dense()), "to_dense": (None, lambda A, a: A.to_dense()), "densify": (None, lambda A, a: cola.densify(A)),
        "add_self": (None, lambda A, a: (A + A).to_dense()), "sub_array": (None, lambda A, a: (A - np.asarray(A.to_dense())).to_dense()),
        "neg": (None, lambda A, a: (-A) @ a.x), "mul_scalar": (None, lambda A, a: (2.5 * A) @ a.x), "div_scalar": (None, lambda A, a: (A / 4) @ a.x),
        "matmul_op": (sq, lambda A, a: (A @ A) @ a.x), "kron_self": (None, lambda A, a: cola.kron(A, A) @ np.ones(A.shape[1]**2, dtype=a.x.dtype)),
        "block_diag": (None, lambda A, a: cola.block_diag(A, A).to_dense()),
        "annotate": (sq, lambda A, a: cola.SelfAdjoint(A)), "no_dispatch": (None, lambda A, a: cola.no_dispatch(A) @ a.x),
        "getitem_int": (None, lambda A, a: A[0, 1]), "getitem_row": (None, lambda A, a: A[1]), "getitem_slice": (None, lambda A, a: A[0:2, 1:3].to_dense()),
        "getitem_arrays": (None, lambda A, a: A[a.rows, a.cols] @ np.ones(len(a.cols), dtype=a.x.dtype)),
        "getitem_arrays_negative": (None, lambda A, a: A[a.rowsn, a.colsn] @ np.ones(len(a.colsn), dtype=a.x.dtype)),
        "getitem_array_rows_negative": (None, lambda A, a: A[a.rowsn].to_dense()),
        "sliced_ctor_negative": (None, lambda A, a: cola.ops.Sliced(A, (a.rowsn, slice(None))) @ a.x),
        "to_dtype": (None, lambda A, a: A.to(None, dtype=np.complex128)),
        "flatten_unflatten": (None, lambda A, a: (lambda f: f[1](f[0]))(A.flatten())),
        "inv_solve": (sq, lambda A, a: L.inv(A) @ a.x), "solve": (sq, lambda A, a: L.solve(A, a.X)),
        "inv_cg": ("psd", lambda A, a: L.inv(A, a.alg_cg) @ a.X),
        "inv_gmres": (sq, lambda A, a: L.inv(A, a.alg_gmres) @ a.X),
        "solve_auto_obj": (sq, lambda A, a: L.solve(A, a.X, a.alg_auto)),
        "lanczos_obj": ("psd", lambda A, a: a.alg_lanczos(A)[:2]), "arnoldi_obj": (sq, lambda A, a: a.alg_arnoldi(A)[:2]),
        "eig_lanczos_obj": ("psd", lambda A, a: L.eig(A, 2, "LM", a.alg_lanczos)), "eig_arnoldi_obj": (sq, lambda A, a: L.eig(A, 2, "LM", a.alg_arnoldi)),
        "exp_lanczos_obj": ("psd", lambda A, a: L.exp(A, a.alg_lanczos) @ a.x), "sqrt_arnoldi_obj": ("psd", lambda A, a: L.sqrt(A, a.alg_arnoldi) @ a.x),
        "pow_neg1_lanczos_obj": ("psd", lambda A, a: L.pow(A, -1, a.alg_lanczos) @ a.x),
        "pow_neg1_arnoldi_obj": (sq, lambda A, a: L.pow(A, -1, a.alg_arnoldi) @ a.x),
        "svd_lanczos_obj": (sq, lambda A, a: svd(A, 2, "LM", a.alg_lanczos)),
        "slogdet_auto_obj": (sq, lambda A, a: L.slogdet(A, a.alg_auto, a.alg_auto)),
        "cg": ("psd", lambda A, a: cg(A, a.x, x0=a.x0, P=ops.Dense(a.Pm), tol=1e-8, max_iters=20)[0]),
        "gmres": (sq, lambda A, a: gmres(A, a.x, x0=a.x0, max_iters=5, tol=1e-8)[0]),
        "pinv": (None, lambda A, a: L.pinv(A) @ a.y), "slogdet": (sq, lambda A, a: L.slogdet(A)), "diag": (sq, lambda A, a: L.diag(A, 1)),
        "trace": (sq, lambda A, a: L.trace(A)), "hutch": (sq, lambda A, a: L.diag(A, 0, a.alg_hutch)),
        # one caller-owned Auto(...) object carrying options, shared by routines of different families
        "eigmax_auto_obj": (sq, lambda A, a: L.eigmax(A, a.alg_auto)), "eig1_auto_obj": (sq, lambda A, a: L.eig(A, 1, "LM", a.alg_auto)),
        "trace_auto_obj": (sq, lambda A, a: L.trace(A, a.alg_auto)), "inv_auto_obj": (sq, lambda A, a: L.inv(A, a.alg_auto) @ a.x),
        "exp_auto_obj": (sq, lambda A, a: L.exp(A, a.alg_auto) @ a.x),
        "exp": (sq, lambda A, a: L.exp(A) @ a.x), "sqrt": ("psd", lambda A, a: L.sqrt(A) @ a.x), "pow2": (sq, lambda A, a: L.pow(A, 2) @ a.x),
        "eig": (sq, lambda A, a: L.eig(A, 2, "LM", L.Eig())), "svd": (None, lambda A, a: svd(A, 2)),
        "cholesky": ("psd", lambda A, a: cholesky(A).to_dense()), "plu": (sq, lambda A, a: [f.to_dense() for f in plu(A)]),
        "lanczos": ("psd", lambda A, a: lanczos(A, a.v, max_iters=3)[:2]), "arnoldi": (sq, lambda A, a: arnoldi(A, a.v, max_iters=3)[:2]),
    }
    return A_


def applicable(req, A, name):
    if req is None:
        return True
    if A.shape[0] != A.shape[1]:
        return False
    if req == "psd":
        return A.isa(cola.PSD)
    return True


def result_hash(x):
    import hashlib
    h = hashlib.sha256()

    def rec(y):
        if isinstance(y, (tuple, list)):
            for t in y:
                rec(t)
        elif isinstance(y, ops.LinearOperator):
            h.update(type(y).__name__.encode())
            try:
                rec(np.asarray(y.to_dense()))
            except Exception as e:  # noqa
                h.update(("undensifiable:" + type(e).__name__).encode())
        elif isinstance(y, np.ndarray) or np.isscalar(y):
            a = np.asarray(y)
            h.update(str((a.dtype.str, a.shape)).encode())
            h.update(np.ascontiguousarray(a).tobytes())
        else:
            h.update(repr(type(y)).encode())
    rec(x)
    return h.hexdigest()


def snapshot(A, owned, aux):
    leaves = [x for x in A.flatten()[0]]
    return {
        "owned": [array_hash(x) for x in owned], "aux": [array_hash(x) for x in aux.arrays], "algs": aux.alg_fields(),
        "dense": array_hash(np.asarray(A.to_dense())), "annotations": sorted(map(str, A.annotations)), "shape": tuple(A.shape),
        "dtype": str(np.dtype(A.dtype)), "leaves": [array_hash(x) if isinstance(x, np.ndarray) else repr(type(x)) for x in leaves],
    }


def diff(s0, s1):
    return [k for k in s0 if s0[k] != s1[k]]


# ---- workload ---------------------------------------------------------------------------------------------------------------
def gen(tier, rng, shard, nshards):
    names = sorted(pool_specs().keys())
    alpha = sorted(alphabet().keys())
    jobs = []
    for dt in ("f8", "c16"):
        for nm in names:
            if dt == "c16" and nm in ("Kernel", "Jacobian", "Hessian", "FFT"):
                continue
            for a in alpha:
                jobs.append({"mode": "history", "member": nm, "dt": dt, "ops": [a]})
            if dt == "f8" or tier == "thorough":
                for a, b in itertools.product(alpha, alpha):
                    jobs.append({"mode": "history", "member": nm, "dt": dt, "ops": [a, b], "sample2": True})
            jobs.append({"mode": "flatten", "member": nm, "dt": dt})
    if tier == "thorough":
        for nm in names:
            for h in itertools.product(alpha, repeat=3):
                jobs.append({"mode": "history", "member": nm, "dt": "f8", "ops": list(h), "sample3": True})
    for i, j in enumerate(jobs):
        if i % nshards != shard:
            continue
        if j.get("sample2") and tier == "quick" and rng.random() > 0.12:
            continue
        if j.get("sample3") and rng.random() > 0.02:
            continue
        yield j
    # random longer histories
    for _ in range(12 if tier == "quick" else 120):
        nm = S.pick(rng, names)
        yield {"mode": "history", "member": nm, "dt": "f8", "ops": [S.pick(rng, alpha) for _ in range(10)]}
    if shard == 0:
        yield {"mode": "order"}


def run_case(ctx, case):
    if case["mode"] == "order":
        return run_order(ctx, case)
    spec = pool_specs(case["dt"])[case["member"]]
    owned = []
    A = build_member(spec, owned)
    if case["mode"] == "flatten":
        return run_flatten(ctx, case, spec, A, owned)
    aux = Aux(A, 77)
    alpha = alphabet()
    ctx.begin_case(case, sig=f"{case['member']}|{case['dt']}|" + ">".join(case["ops"]), nontrivial=True)
    ctx.count("member", case["member"])
    ctx.count("history_len", len(case["ops"]))
    s0 = snapshot(A, owned, aux)
    first = None
    applied = 0
    kept = []
    for i, name in enumerate(case["ops"]):
        req, fn = alpha[name]
        if not applicable(req, A, name):
            ctx.count("skipped_inapplicable", name)
            continue
        out = ctx.call(fn, A, aux)
        kept.append(out)  # results stay alive while later operations run
        applied += 1
        ctx.count("op", name)
        if is_err(out):
            ctx.count("op_raised", f"{name}:{out.type}")
        if first is None:
            first = (name, fn, None if is_err(out) else result_hash(out), is_err(out))
        s1 = snapshot(A, owned, aux)
        changed = diff(s0, s1)
        preds = {"member": case["member"], "op": name, "complex": case["dt"] == "c16"}
        ctx.check("caller-arrays-bit-identical", not [c for c in changed if c in ("owned", "aux")], site=name, preds=preds,
                  detail={"changed": changed, "history": case["ops"], "step": i})
        ctx.check("algorithm-objects-unchanged", "algs" not in changed, site=name, preds=preds,
                  detail={"history": case["ops"], "step": i, "before": [a[:8] for a, b in zip(s0["algs"], s1["algs"]) if a != b][:2],
                          "after": [b[:8] for a, b in zip(s0["algs"], s1["algs"]) if a != b][:2]})
        ctx.check("operator-unchanged", not [c for c in changed if c not in ("owned", "aux", "algs")], site=name, preds=preds,
                  detail={"changed": changed, "history": case["ops"], "step": i})
        if changed:
            return
    if first is not None and applied >= 1 and not first[3]:
        again = ctx.call(first[1], A, aux)
        same = (not is_err(again)) and result_hash(again) == first[2]
        ctx.check("repeated-call-same-result", bool(same), site=first[0], preds={"member": case["member"], "op": first[0], "complex": case["dt"] == "c16"},
                  detail={"history": case["ops"]})


# ---- flatten / unflatten ---------------------------------------------------------------------------------------------------
def array_attrs(obj, depth=0, seen=None):
    """All ndarray objects reachable from the operator's attributes (through nested operators, tuples, lists)."""
    seen = set() if seen is None else seen
    out = []
    if depth > 6 or id(obj) in seen:
        return out
    seen.add(id(obj))
    if isinstance(obj, np.ndarray):
        return [obj]
    if isinstance(obj, ops.LinearOperator):
        for k, v in sorted(vars(obj).items()):
            out += array_attrs(v, depth + 1, seen)
    elif isinstance(obj, (tuple, list)):
        for v in obj:
            out += array_attrs(v, depth + 1, seen)
    return out


def run_flatten(ctx, case, spec, A, owned):
    ctx.begin_case(case, sig=f"flatten|{case['member']}|{case['dt']}", nontrivial=True)
    preds = {"member": case["member"], "complex": case["dt"] == "c16"}
    site = spec["k"]
    out = ctx.call(A.flatten)
    if is_err(out):
        ctx.check("flatten-returns", False, site=site, preds=preds, detail={"error": repr(out)})
        return
    vals, unflatten = out
    Bop = ctx.call(unflatten, vals)
    if is_err(Bop):
        ctx.check("flatten-returns", False, site=site, preds=preds, detail={"error": repr(Bop)})
        return
    ctx.check("flatten-returns", True)
    D0, D1 = np.asarray(A.to_dense()), np.asarray(Bop.to_dense())
    same = type(Bop) is type(A) and tuple(Bop.shape) == tuple(A.shape) and np.dtype(Bop.dtype) == np.dtype(A.dtype) and \
        set(Bop.annotations) == set(A.annotations) and D0.shape == D1.shape and np.array_equal(D0, D1, equal_nan=True)
    ctx.check("round-trip-same-operator", bool(same), site=site, preds=preds,
              detail={"type": [type(A).__name__, type(Bop).__name__], "annotations": [sorted(map(str, A.annotations)), sorted(map(str, Bop.annotations))]})
    leaves = list(vals)
    arr_leaves = [x for x in leaves if isinstance(x, np.ndarray)]
    params = array_attrs(A)
    ids_leaves, ids_params = {id(x) for x in arr_leaves}, {id(x) for x in params}
    ok_leaves = bool(ids_leaves == ids_params and len(arr_leaves) == len(leaves))
    if not ok_leaves and site != "Sliced":
        # blame: a discrepancy that consists only of the selectors of Sliced sub-operators (slice objects listed as leaves, index
        # arrays hidden in the static part) is the Sliced kind's, whatever composite the slices sit in
        sel = []

        def walk(op, depth=0):
            if isinstance(op, ops.Sliced):
                sel.extend(op.slices)
            if depth < 6 and isinstance(op, ops.LinearOperator):
                for v in vars(op).values():
                    for w in (v if isinstance(v, (tuple, list)) else [v]):
                        if isinstance(w, ops.LinearOperator):
                            walk(w, depth + 1)
        walk(A)
        sel_ids = {id(x) for x in sel}
        odd = [x for x in leaves if not isinstance(x, np.ndarray)] + [x for x in params if id(x) not in ids_leaves] + [x for x in arr_leaves if id(x) not in ids_params]
        if odd and all(id(x) in sel_ids for x in odd):
            site = "Sliced"
    ctx.check("leaves-are-exactly-the-array-parameters", ok_leaves, site=site, preds=preds,
              detail={"n_leaves": len(leaves), "n_array_leaves": len(arr_leaves), "n_array_parameters": len(params),
                      "non_array_leaves": [type(x).__name__ for x in leaves if not isinstance(x, np.ndarray)][:4],
                      "params_not_leaves": len(ids_params - ids_leaves), "leaves_not_params": len(ids_leaves - ids_params)})
    # caller-owned payloads stored by reference are leaves themselves (identity)
    for i, x in enumerate(arr_leaves):
        new = list(leaves)
        pos = next(j for j, y in enumerate(leaves) if y is x)
        repl = (x + 1).astype(x.dtype) if x.dtype.kind in "fc" else x.copy()
        new[pos] = repl
        C = ctx.call(unflatten, new)
        if is_err(C):
            ctx.check("substituting-a-leaf", False, site=site, preds=preds, detail={"error": repr(C), "leaf": i})
            continue
        cvals = list(C.flatten()[0])
        ok = len(cvals) == len(leaves) and cvals[pos] is repl and all(cvals[j] is leaves[j] for j in range(len(leaves)) if j != pos)
        ctx.check("substituting-a-leaf", bool(ok), site=site, preds=preds, detail={"leaf": i, "n": len(leaves)})
        ctx.check("caller-arrays-bit-identical", bool(np.array_equal(leaves[pos], x)), site="flatten", preds=preds, detail={"leaf": i})


# ---- (e) order of first instantiation, in fresh interpreters --------------------------------------------------------------------
ORDER_SCRIPT = r'''
import sys, json
sys.path.insert(0, %(here)r)
from harness import core
cola = core.setup_repo(%(repo)r)
import numpy as np
from harness.monitors import c18
order = json.loads(%(order)r)
specs = c18.pool_specs("f8")
for nm in order:
    c18.build_member(specs[nm], [])
verdict = {}
for nm in sorted(specs):
    owned = []
    A = c18.build_member(specs[nm], owned)
    vals, unf = A.flatten()
    try:
        Bop = unf(vals)
        D0, D1 = np.asarray(A.to_dense()), np.asarray(Bop.to_dense())
        leaves = list(vals)
        params = c18.array_attrs(A)
        verdict[nm] = {"same": bool(type(Bop) is type(A) and np.array_equal(D0, D1)),
                       "leaf_types": [type(x).__name__ for x in leaves],
                       "leaves_eq_params": {id(x) for x in leaves if isinstance(x, np.ndarray)} == {id(x) for x in params}}
    except Exception as e:
        verdict[nm] = {"error": type(e).__name__}
print("VERDICT " + json.dumps(verdict, sort_keys=True))
'''


def run_order(ctx, case):
    names = sorted(pool_specs().keys())
    ctx.begin_case(case, sig="order", nontrivial=True)
    orders = [[a, b] for a, b in itertools.permutations(["SlicedSlices", "SlicedArrays", "Product", "Sum", "Kronecker", "Dense", "ScalarMul", "Identity"], 2)]
    orders = orders[:28] + [list(reversed(names)), names] + [["ScalarMulNpScalar", "ScalarMul"], ["ScaledNpScalar", "Product"], ["ScalarMulArr0", "ScalarMul"],
                            ["ScalarMul", "ScalarMulNpScalar"], ["ScaledNpScalar", "ScalarMulNpScalar"],
                            ["SumOfSlicesMatrixFree", "SumOfSlicesDense"], ["SumOfSlicesDense", "SumOfSlicesMatrixFree"],
                            ["ProductOfSlicesMatrixFree", "ProductOfSlicesDense"], ["ProductOfSlicesDense", "ProductOfSlicesMatrixFree"]]
    results = {}
    procs = []
    for od in orders:
        code = ORDER_SCRIPT % {"here": HERE, "repo": ctx.repo, "order": json.dumps(od)}
        procs.append((tuple(od), subprocess.Popen([sys.executable, "-c", code], stdout=subprocess.PIPE, stderr=subprocess.DEVNULL, text=True,
                                                 env=dict(os.environ, PYTHONHASHSEED="0"))))
        if len(procs) >= 8:
            for od_, p in procs:
                out, _ = p.communicate(timeout=900)
                line = [ln for ln in out.splitlines() if ln.startswith("VERDICT ")]
                results[od_] = json.loads(line[0][8:]) if line else None
            procs = []
    for od_, p in procs:
        out, _ = p.communicate(timeout=900)
        line = [ln for ln in out.splitlines() if ln.startswith("VERDICT ")]
        results[od_] = json.loads(line[0][8:]) if line else None
    ok_runs = {k: v for k, v in results.items() if v is not None}
    ctx.note("order_runs", len(ok_runs))
    if len(ok_runs) < 2:
        ctx.inconclusive.append("order-of-instantiation subprocesses produced no verdicts")
        return
    from harness import refmodel as R_
    for nm in names:
        variants, coarse = {}, {}
        for od, v in ok_runs.items():
            variants.setdefault(json.dumps(v.get(nm), sort_keys=True), []).append(od)
            vv = v.get(nm) or {}
            # (the array parameters only: which arrays are leaves, and the round trip)
            coarse.setdefault(json.dumps({"same": vv.get("same"), "error": vv.get("error"), "n_array_leaves": sum(1 for t in vv.get("leaf_types", []) if t == "ndarray"),
                                          "leaves_eq_params": vv.get("leaves_eq_params")}, sort_keys=True), []).append(od)
        site = pool_specs()[nm]["k"]
        if len(variants) > 1 and len(coarse) == 1 and "Sliced" in R_.kinds(pool_specs()[nm]):
            site = "Sliced"  # (only the slice objects of Sliced parts come and go with the order: the Sliced kind's registry)
        ctx.check("independent-of-instantiation-order", len(variants) == 1, site=site,
                  preds={"member": nm}, detail={"variants": {k: [list(o) for o in v[:2]] for k, v in variants.items()}})
