"""C07 - slogdet / logdet equal the determinant's phase and log-magnitude (DESIGN 4/C07)."""
import numpy as np

import cola
from harness import build as B
from harness import refmodel as R
from harness import spec as S
from harness import wellcond as W
from harness.core import is_err
from harness.probes import DISPATCH
from harness.treecheck import blame, leaf_preds

SIZES = {"quick": 160, "thorough": 3500}
OMIT = "omitted"


def gen_long(rng):
    """Determinants far outside the floating range while every entry is ordinary (|det| ~ 1e-400 .. 1e+400): only the
    logarithm is representable - the reason slogdet exists."""
    dt = S.pick(rng, ["f8", "c16"])
    n = int(S.pick(rng, [400, 500, 640]))
    mag = float(S.pick(rng, [0.1, 0.05, 10.0, 20.0]))
    kind = S.pick(rng, ["Diagonal", "Diagonal", "ScalarMul", "Triangular", "KronDiag", "BlockDiagMult", "ProductDiag"])
    def diag_vals(m):
        sg = rng.choice([-1.0, 1.0], size=m)
        if dt == "c16":
            ph = np.exp(1j * rng.uniform(-3, 3, size=m))
            return [{"re": float((mag * p).real), "im": float((mag * p).imag)} for p in ph]
        return [float(mag * s_) for s_ in sg]
    if kind == "Diagonal":
        node = {"k": "Diagonal", "n": n, "dt": dt, "vals": diag_vals(n)}
    elif kind == "ScalarMul":
        node = {"k": "ScalarMul", "n": n, "dt": dt, "c": mag if rng.random() < 0.5 else -mag}
    elif kind == "Triangular":
        node = {"k": "Triangular", "n": n, "dt": dt, "seed": S.seed(rng), "lower": bool(rng.random() < 0.5), "diag": diag_vals(n)}
    elif kind == "KronDiag":
        node = {"k": "Kronecker", "via": "fn", "args": [{"k": "Diagonal", "n": 24, "dt": dt, "vals": diag_vals(24)}, {"k": "Diagonal", "n": 20, "dt": dt, "vals": diag_vals(20)}]}
    elif kind == "BlockDiagMult":
        node = {"k": "BlockDiag", "via": "ctor", "mult": [220, 1], "args": [{"k": "Diagonal", "n": 2, "dt": dt, "vals": diag_vals(2)}, {"k": "Diagonal", "n": 3, "dt": dt, "vals": diag_vals(3)}]}
    else:
        node = {"k": "Product", "via": "ctor", "args": [{"k": "Diagonal", "n": n, "dt": dt, "vals": diag_vals(n)}, {"k": "Diagonal", "n": n, "dt": dt, "vals": diag_vals(n)}]}
    return {"spec": node, "log_alg": S.pick(rng, [OMIT, "Auto", "LU"]), "trace_alg": OMIT, "fn": "slogdet", "psd": False, "long": True}


def gen(tier, rng, shard, nshards):
    for i in range(SIZES[tier]):
        if rng.random() < 0.04:
            yield gen_long(rng)
            continue
        dt = S.pick(rng, ["f8", "f8", "c16", "f4", "c8"])
        psd = rng.random() < 0.35
        n = int(S.pick(rng, [1, 2, 3, 4, 5, 6, 8, 9, 12]))
        if rng.random() < 0.25:  # directed: the kinds named in the property, every size n
            kind = S.pick(rng, ["ScalarMul", "Permutation", "Identity", "Triangular", "Diagonal", "Kronecker", "BlockDiag"])
            if kind in ("Kronecker", "BlockDiag"):
                node = W.gen_invertible(rng, 1, dt, n, False, comps=[kind])
            else:
                node = W.gen_leaf(rng, n, dt, [kind])
            psd = False
        else:
            node = W.gen_invertible(rng, int(S.pick(rng, [0, 1, 1, 2])), dt, n, psd)
            if psd and node["k"] != "Annot":
                node = {"k": "Annot", "name": "PSD", "arg": node}
        if not psd and rng.random() < 0.08:
            # products in which the very same operator object occurs more than once (A @ A, A @ B @ A, (c A) @ A)
            a = W.gen_invertible(rng, int(S.pick(rng, [0, 0, 1])), dt, n, False)
            b = W.gen_invertible(rng, 0, dt, n, False)
            form = S.pick(rng, ["AA", "ABA", "AAA", "AAB"])
            node = {"k": "Product", "via": S.pick(rng, ["ctor", "fn"]), "share": True, "args": {"AA": [a, a], "ABA": [a, b, a], "AAA": [a, a, a], "AAB": [a, a, b]}[form]}
        krylov_wish = rng.random() < 0.25  # Krylov pairs get |det| < 1 half of the time (logabs negative)
        if rng.random() < (0.6 if krylov_wish else 0.3):  # determinants on both sides of 1 in magnitude
            c = float(S.pick(rng, [0.25, 0.5, 3.0] if psd else [0.25, -0.5, 3.0, -2.0]))
            node = {"k": "Scaled", "c": c, "arg": node}
            if psd:
                node = {"k": "Annot", "name": "PSD", "arg": node}
        if krylov_wish and rng.random() < 0.5:
            # an operator that reaches the Krylov base case as a whole and has |det| < 1 (structural rules would peel a
            # scalar factor off before the base case sees it)
            inner = {"k": S.pick(rng, ["Dense", "Generic"]), "shape": [n, n], "dt": dt, "seed": S.seed(rng), "gen": "herm",
                     "eigs": W.lin(0.3, 0.9, n)}
            node = {"k": "Annot", "name": "PSD", "arg": inner} if psd else inner
            if rng.random() < 0.3:
                node = {"k": "Sum", "via": "ctor", "args": [node, dict(node, **({"arg": dict(inner, seed=S.seed(rng))} if psd else {"seed": S.seed(rng)}))]}
                node["args"] = [{"k": "Scaled", "c": 0.5, "arg": a} if not psd else a for a in node["args"]]
                if psd:
                    node = {"k": "Annot", "name": "PSD", "arg": {"k": "Scaled", "c": 0.5, "arg": node}}
        if krylov_wish and not psd and dt == "f8" and rng.random() < 0.5:
            # real symmetric *indefinite* operators (declared SelfAdjoint or not) that reach the Krylov base case as a whole or
            # as a factor / block: determinants of both signs through Arnoldi
            def indef(m):
                sg = rng.choice([-1.0, 1.0], size=m)
                sg[int(rng.integers(0, m))] = -1.0
                leaf = {"k": S.pick(rng, ["Dense", "Generic"]), "shape": [m, m], "dt": dt, "seed": S.seed(rng), "gen": "herm",
                        "eigs": [float(a * b) for a, b in zip(W.lin(0.4, 1.6, m), sg)]}
                return {"k": "Annot", "name": "SelfAdjoint", "arg": leaf} if rng.random() < 0.7 else leaf
            form = S.pick(rng, ["whole", "whole", "Kronecker", "BlockDiag", "Product"])
            if form == "whole":
                node = indef(n)
            elif form == "Kronecker":
                node = {"k": "Kronecker", "via": "ctor", "args": [indef(int(rng.integers(2, 4))), indef(int(rng.integers(1, 4)))]}
            elif form == "BlockDiag":
                node = {"k": "BlockDiag", "via": "ctor", "mult": [int(rng.integers(1, 3)), 1], "args": [indef(int(rng.integers(2, 4))), indef(int(rng.integers(1, 4)))]}
            else:
                node = {"k": "Product", "via": "ctor", "args": [indef(n), indef(n)]}
        gram_tail = (not psd) and (not krylov_wish) and rng.random() < 0.06
        if gram_tail:
            # a square product of *rectangular* factors that starts (or ends) with a Gram pair of one operator object, X^T X W:
            # no factor-wise rule applies, the automatic choice reads the annotations of the whole product
            m_ = n + int(rng.integers(1, 4))
            X = {"k": S.pick(rng, ["Dense", "Generic"]), "shape": [m_, n], "dt": dt, "seed": S.seed(rng), "gen": "svals", "svals": W.lin(1.0, 2.0, n)}
            if rng.random() < 0.4:
                X = {"k": "Sum", "via": "ctor", "args": [X, dict(X, seed=S.seed(rng))]}
            Wn = W.gen_invertible(rng, 0, dt, n, False)
            node = {"k": "Gram", "form": S.pick(rng, ["TA", "HA"]), "same": True, "via": S.pick(rng, ["fn", "ctor"]), "arg": X,
                    **({"tail": [Wn]} if rng.random() < 0.7 else {"head": [Wn], "form": "AT"} if False else {"tail": [Wn]})}
        routine = (not psd) and (not krylov_wish) and (not gram_tail) and rng.random() < 0.2
        if routine:
            # the result of another cola routine as the operator, or as a factor / block / transposed part of it (DESIGN 4.25):
            # lazy inverses (TriangularInv, factorised inverses, structural inverses), Cholesky factors, matrix functions
            m_ = int(S.pick(rng, [1, 2, 3, 4]))
            if rng.random() < 0.4:
                dt = S.pick(rng, ["c16", "c8"])  # (phases: only complex determinants have more than two)
            r = W.direct_only(W.gen_routine(rng, dt, m_, fns=["inv", "inv", "inv", "inv", "cholL", "pluprod", "svdprod", "pow-1", "sqrt", "exp", "pow2"]))
            if rng.random() < 0.3:
                r = W.gen_routine_directed(rng, dt, m_)
            other = W.gen_invertible(rng, 0, dt, m_, False, plain=True)
            form = S.pick(rng, ["whole", "whole", "Product", "Product", "Kronecker", "BlockDiag", "Transpose", "Adjoint"])
            node = {"whole": r, "Product": {"k": "Product", "via": S.pick(rng, ["ctor", "fn"]), "args": [other, r] if rng.random() < 0.5 else [r, other]},
                    "Kronecker": {"k": "Kronecker", "via": "ctor", "args": [r, W.gen_invertible(rng, 0, dt, int(rng.integers(1, 4)), False, plain=True)]},
                    "BlockDiag": {"k": "BlockDiag", "via": "ctor", "mult": [int(rng.integers(1, 3)), 1], "args": [r, W.gen_invertible(rng, 0, dt, int(rng.integers(1, 4)), False, plain=True)]},
                    "Transpose": {"k": "Transpose", "via": S.pick(rng, ["ctor", "fn"]), "arg": r},
                    "Adjoint": {"k": "Adjoint", "via": S.pick(rng, ["ctor", "fn"]), "arg": r}}[form]
        if psd:
            la = S.pick(rng, ["Lanczos", "Arnoldi"] if krylov_wish else [OMIT, "Auto", "Cholesky", "LU", "Lanczos", "Arnoldi"])
        else:
            la = "Arnoldi" if krylov_wish else S.pick(rng, [OMIT, "Auto", "LU", "LU", "Arnoldi"])
        ta = OMIT if la == OMIT else S.pick(rng, [OMIT, "Auto", "Exact"])
        yield {"spec": node, "log_alg": la, "trace_alg": ta, "fn": S.pick(rng, ["slogdet", "slogdet", "logdet"]), "psd": psd}


def algs(case, n):
    from cola.linalg import LU, Arnoldi, Auto, Cholesky, Exact, Lanczos
    la = {OMIT: None, "Auto": Auto(), "Cholesky": Cholesky(), "LU": LU(), "Lanczos": Lanczos(max_iters=n + 2, tol=1e-13),
          "Arnoldi": Arnoldi(max_iters=n, tol=1e-13)}[case["log_alg"]]
    ta = {OMIT: None, "Auto": Auto(), "Exact": Exact()}[case["trace_alg"]]
    return [a for a in (la, ta) if a is not None]


def evaluate(ctx, node, case):
    """-> list of (oracle, ok, detail)"""
    from cola import linalg as L
    ref = R.dense(node)
    n = ref.M.shape[0]
    A = B.build(node)
    args = algs(case, n)
    want_sign, want_log = np.linalg.slogdet(ref.M)
    cond = float(np.linalg.cond(ref.M))
    krylov = case["log_alg"] in ("Lanczos", "Arnoldi")
    eps = max(ref.eps, 1e-9 if krylov else 0.0)
    tol = 2e3 * eps * n * max(cond, 1.0)
    out = []
    res = ctx.call(L.slogdet, A, *args)
    if is_err(res):
        return [("slogdet-returns", False, {"error": repr(res)})]
    out.append(("slogdet-returns", True, None))
    sign, logabs = res
    sign, logabs = complex(np.asarray(sign)), complex(np.asarray(logabs))
    d = {"got": [sign, logabs], "want": [complex(want_sign), float(want_log)], "tol": tol, "cond": cond, "n": n}
    out.append(("logabs", bool(np.isfinite(logabs.real) and abs(logabs.imag) <= tol and abs(logabs.real - want_log) <= tol * max(1.0, abs(want_log))), d))
    out.append(("sign-unit-modulus", bool(abs(abs(sign) - 1.0) <= tol), d))
    out.append(("sign", bool(abs(sign - complex(want_sign)) <= tol), d))
    if ref.dtype.kind != "c":
        out.append(("sign-real-pm1", bool(abs(sign.imag) <= tol and abs(abs(sign.real) - 1) <= tol), d))
    if abs(want_log) < 600:  # (beyond that the determinant itself is not representable: only sign and logabs are judged)
        det = np.linalg.det(ref.M)
        out.append(("det-reconstructed", bool(abs(sign * np.exp(logabs) - det) <= tol * max(abs(det), 1e-300) * 10), d))
    ld = ctx.call(L.logdet, A, *args)
    if is_err(ld):
        out.append(("logdet", False, {"error": repr(ld)}))
    else:
        ld = complex(np.asarray(ld))
        out.append(("logdet", bool(abs(ld - logabs) <= tol * max(1.0, abs(want_log))), {"logdet": ld, "logabs": logabs}))
    return out


def run_case(ctx, case):
    DISPATCH.install()
    node = case["spec"]
    ref = R.dense(node)
    n = ref.M.shape[0]
    cond = float(np.linalg.cond(ref.M))
    if not np.isfinite(cond) or cond > 300:
        ctx.note("skipped_out_of_regime_cond")
        return
    if case["log_alg"] in ("Lanczos", "Arnoldi"):
        # regime of the Krylov paths (DESIGN 4.0): they go through the matrix logarithm, whose domain (principal branch)
        # excludes the closed negative real axis, and are judged in double precision only
        near_cut = False
        for sub in _square_subtrees(node):  # structural rules hand sub-expressions to the same Krylov path
            rs = R.dense(sub)
            ev, V = np.linalg.eig(rs.M)
            # (a *real* operator is in regime whatever its spectrum: the projected matrices are real, real eigenvalues come out
            # exactly real and complex ones in exact conjugate pairs, so every negative eigenvalue contributes the same +i pi and
            # the pairs cancel.  In complex arithmetic an eigenvalue on the cut gets +-i pi by the sign of a rounding error,
            # differently for every probe column: recorded finding, see known_findings.json; case flag "force_regime".)
            if rs.dtype.kind == "c" and not case.get("force_regime"):
                near_cut = near_cut or bool(np.any((ev.real < 0) & (np.abs(ev.imag) < 0.2 * np.abs(ev))))
            # ... and are defined through an eigendecomposition: (nearly) defective sub-expressions are out of regime
            near_cut = near_cut or not np.isfinite(np.linalg.cond(V)) or np.linalg.cond(V) > 50
        if near_cut or ref.eps > 1e-10:
            ctx.note("skipped_out_of_regime_krylov_log")
            return
    ctx.begin_case(case, sig=R.signature(node) + f"|{case['log_alg']}|{case['trace_alg']}", nontrivial=True)
    for k in set(R.kinds(node)):
        ctx.count("kind", k)
    ctx.count("algs", f"{case['log_alg']}/{case['trace_alg']}")
    s, l = np.linalg.slogdet(ref.M)
    ctx.count("det_class", ("|det|<1" if l < 0 else "|det|>=1") + (",complex-phase" if abs(complex(s).imag) > 1e-9 else
                                                                   (",negative" if complex(s).real < 0 else ",positive")))
    before = dict(DISPATCH.rules)
    results = evaluate(ctx, node, case)
    for rid, c in DISPATCH.rules.items():
        if rid.startswith("slogdet(") and c > before.get(rid, 0):
            ctx.count("slogdet_rule", rid)
    for oracle, ok, detail in results:
        if ok:
            ctx.check(oracle, True)
            continue

        def fails(nd):
            s_ = R.shape_of(nd)
            if s_[0] != s_[1]:
                return False
            if case["log_alg"] in ("Cholesky", "Lanczos") and "PSD" not in R.truth(R.dense(nd).M, 1e-9):
                return False
            return not all(k for _, k, _ in evaluate(ctx, nd, case))

        culprit = blame(node, fails)
        preds = leaf_preds(culprit)
        preds["log_alg"] = case["log_alg"]
        cr = R.dense(culprit)
        preds["n>1"] = cr.M.shape[0] > 1
        if culprit["k"] == "Permutation":
            p = np.asarray(culprit["perm"])
            preds["parity"] = "odd" if np.linalg.det(cr.M) < 0 else "even"
        ss, ll = np.linalg.slogdet(cr.M)
        preds["logabs_negative"] = bool(ll < 0)
        if case["log_alg"] in ("Lanczos", "Arnoldi"):
            inner = culprit
            while inner["k"] in ("Transpose", "Adjoint", "Annot", "NoDispatch") and "arg" in inner:
                inner = inner["arg"]
            if inner is not culprit:
                preds["wrapped"] = inner["k"]
                try:  # what the wrapper really wraps (the overloads may have simplified the spec: Diagonal @ Identity is the Diagonal)
                    op_ = B.build(culprit)
                    while isinstance(op_, (cola.ops.Transpose, cola.ops.Adjoint)):
                        op_ = op_.A
                    preds["wrapped"] = type(op_).__name__.split("[")[0]
                except Exception:  # noqa
                    pass
            evs = np.linalg.eigvals(cr.M)
            preds["negative_real_eigenvalue"] = bool(np.any((evs.real < 0) & (np.abs(evs.imag) <= 1e-9 * np.abs(evs))))
            preds["complex"] = cr.dtype.kind == "c"
            got_ = []
            if isinstance(detail, dict):
                got_ = list(detail.get("got") or []) + [detail[k_] for k_ in ("logabs", "logdet") if k_ in detail]
            preds["nonfinite"] = bool(got_ and not all(np.isfinite(complex(g)) for g in got_))
        ctx.check(oracle, False, site=culprit["k"], preds=preds,
                  detail={"detail": detail, "blamed": culprit if R.depth(culprit) <= 1 else R.signature(culprit)})


def _square_subtrees(node):
    s_ = R.shape_of(node)
    if s_[0] == s_[1]:
        yield node
    for c in R.children(node):
        yield from _square_subtrees(c)
