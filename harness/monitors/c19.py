"""C19 - structured operators are never densified: cost stays proportional to the factors (DESIGN 4/C19)."""
import tracemalloc

import numpy as np
import scipy.linalg as sla

import cola
from cola import ops
from harness import payload as P
from harness import spec as S
from harness.core import is_err
from harness.probes import DISPATCH

SIZES = {"quick": 7, "thorough": 60}
KAPPA = 64
N_BIG = 512


class DensificationEvent(RuntimeError):
    pass


class DenseTap:
    """Halt-on-error event monitor: a large operator is densified, or probed with >= n/4 identity columns."""
    def __init__(self):
        self.installed = False
        self.on = False
        self.events = 0

    def install(self):
        if self.installed:
            return
        from cola.ops.operator_base import LinearOperator
        tap = self

        def guard(fn, what):
            def wrapped(self_, *a, **k):
                if tap.on and min(self_.shape) >= N_BIG:
                    tap.events += 1
                    raise DensificationEvent(f"{what} on a {self_.shape[0]}x{self_.shape[1]} {type(self_).__name__}")
                return fn(self_, *a, **k)
            return wrapped

        for cls in [LinearOperator, ops.Kronecker, ops.KronSum, ops.BlockDiag, ops.Diagonal, ops.Dense]:
            if "to_dense" in cls.__dict__:
                setattr(cls, "to_dense", guard(cls.__dict__["to_dense"], "to_dense"))
        orig_mm = LinearOperator.__matmul__
        orig_rmm = LinearOperator.__rmatmul__

        def mm(self_, X):
            if tap.on and isinstance(X, np.ndarray) and X.ndim == 2 and min(self_.shape) >= N_BIG and X.shape[1] >= self_.shape[1] // 4:
                tap.events += 1
                raise DensificationEvent(f"product of a {self_.shape} {type(self_).__name__} with {X.shape[1]} columns (identity probing)")
            return orig_mm(self_, X)

        def rmm(self_, X):
            if tap.on and isinstance(X, np.ndarray) and X.ndim == 2 and min(self_.shape) >= N_BIG and X.shape[0] >= self_.shape[0] // 4:
                tap.events += 1
                raise DensificationEvent(f"left product of a {self_.shape} {type(self_).__name__} with {X.shape[0]} rows (identity probing)")
            return orig_rmm(self_, X)

        LinearOperator.__matmul__ = mm
        LinearOperator.__rmatmul__ = rmm
        self.installed = True


TAP = DenseTap()


# ---- structured instances and their factor-wise reference actions ------------------------------------------------------------------
def spd(rng, n, lo=1.0, hi=2.0):
    Q = P.haar(rng, n, False)
    return (Q * np.linspace(lo, hi, n)) @ Q.T


def kron_mv(Fs, X):
    X = X.reshape(*[F.shape[1] for F in Fs], -1)
    for i, F in enumerate(Fs):
        X = np.moveaxis(np.tensordot(F, X, axes=([1], [i])), 0, i)
    return X.reshape(int(np.prod([F.shape[0] for F in Fs])), -1)


def kronsum_mv(Fs, X):
    sizes = [F.shape[0] for F in Fs]
    Xr = X.reshape(*sizes, -1)
    out = np.zeros_like(Xr)
    for i, F in enumerate(Fs):
        out = out + np.moveaxis(np.tensordot(F, Xr, axes=([1], [i])), 0, i)
    return out.reshape(int(np.prod(sizes)), -1)


def blockdiag_mv(Bs, mults, X):
    out, r = [], 0
    for Bk, m in zip(Bs, mults):
        for _ in range(m):
            out.append(Bk @ X[r:r + Bk.shape[1]])
            r += Bk.shape[1]
    return np.concatenate(out, axis=0)


def fpow(F, a):
    w, V = np.linalg.eigh(F)
    return (V * w**a) @ V.T


class Instance:
    def __init__(self, kind, rng, side=None):
        """side: on which side of the 1e6-entry threshold of the automatic rules the operator lies ("small": n <= 1000 -- still
        hundreds of times more entries than the factors store -- or "large": n > 1000; None: either)."""
        self.kind = kind
        if kind in ("Kronecker", "KronSum", "KronDiag", "KronScaled", "KronPlusDiag"):
            nf = int(rng.integers(2, 5))
            if side == "small":
                sizes = {2: [int(rng.integers(24, 32)), int(rng.integers(24, 32))], 3: [int(rng.integers(8, 11)) for _ in range(3)],
                         4: [5, 5, int(rng.integers(5, 7)), int(rng.integers(5, 7))]}[nf]
            elif side == "large":
                sizes = {2: [int(rng.integers(32, 40)), int(rng.integers(32, 40))], 3: [int(rng.integers(11, 14)) for _ in range(3)],
                         4: [int(rng.integers(6, 8)) for _ in range(4)]}[nf]
            else:
                sizes = {2: [int(rng.integers(24, 40)), int(rng.integers(24, 40))], 3: [int(rng.integers(9, 14)) for _ in range(3)],
                         4: [int(rng.integers(5, 8)) for _ in range(4)]}[nf]
            self.Fs = [spd(rng, s) for s in sizes]
            self.n = int(np.prod(sizes))
            self.storage = sum(s * s for s in sizes)
            facs = [cola.PSD(ops.Dense(F)) for F in self.Fs]
            if kind == "KronSum":
                self.op = ops.KronSum(*facs)
                self.mv = lambda X: kronsum_mv(self.Fs, X)
            else:
                self.op = ops.Kronecker(*facs)
                self.mv = lambda X: kron_mv(self.Fs, X)
            if kind in ("KronDiag", "KronPlusDiag"):
                self.d = 1.0 + rng.random(self.n)
                self.storage += self.n
                Kop, Kmv = self.op, self.mv
                if kind == "KronDiag":
                    self.op = Kop @ ops.Diagonal(self.d)
                    self.mv = lambda X: Kmv(self.d[:, None] * X)
                else:
                    self.op = Kop + ops.Diagonal(self.d)
                    self.mv = lambda X: Kmv(X) + self.d[:, None] * X
            if kind == "KronScaled":
                Kop, Kmv = self.op, self.mv
                # the scalar in every spelling a caller uses: Python float, NumPy scalar, 0-d array, one-element arrays with an
                # axis (a slice of a parameter vector), from either side, as a quotient
                form = int(rng.integers(0, 7))
                self.scalar_form = ["float*A", "A*float", "npscalar*A", "arr0*A", "arr1*A", "A*arr11", "A/float"][form]
                self.op = [lambda: 2.0 * Kop, lambda: Kop * 2.0, lambda: np.float64(2.0) * Kop, lambda: np.array(2.0) * Kop,
                           lambda: np.array([2.0]) * Kop, lambda: Kop * np.array([[2.0]]), lambda: Kop / 0.5][form]()
                self.mv = lambda X: 2.0 * Kmv(X)
        elif kind == "BlockDiag":
            b = int(rng.integers(2, 4))
            sizes = [int(rng.integers(3, 9)) for _ in range(b)]
            self.mults = [int(rng.integers(40, 120)) for _ in range(b)]
            if side == "small":
                b, sizes = 3, [int(rng.integers(4, 6)) for _ in range(3)]
                self.mults = [int(rng.integers(45, 61)) for _ in range(3)]
            elif side == "large":
                b, sizes = 3, [int(rng.integers(5, 9)) for _ in range(3)]
                self.mults = [int(rng.integers(70, 120)) for _ in range(3)]
            self.Fs = [spd(rng, s) for s in sizes]
            self.n = sum(s * m for s, m in zip(sizes, self.mults))
            self.storage = sum(s * s for s in sizes)
            self.op = ops.BlockDiag(*[cola.PSD(ops.Dense(F)) for F in self.Fs], multiplicities=self.mults)
            self.mv = lambda X: blockdiag_mv(self.Fs, self.mults, X)
        elif kind in ("Diagonal", "ScalarMul", "Identity", "Permutation", "Tridiagonal"):
            self.n = int(rng.integers(2000, 4000)) if side != "small" else int(rng.integers(600, 1001))
            self.storage = self.n
            if kind == "Diagonal":
                self.d = 1.0 + rng.random(self.n)
                self.op = ops.Diagonal(self.d)
                self.mv = lambda X: self.d[:, None] * X
            elif kind == "ScalarMul":
                self.op = ops.ScalarMul(1.5, (self.n, self.n), dtype=np.float64)
                self.mv = lambda X: 1.5 * X
            elif kind == "Identity":
                self.op = ops.Identity((self.n, self.n), np.float64)
                self.mv = lambda X: X
            elif kind == "Permutation":
                self.p = rng.permutation(self.n)
                self.op = ops.Permutation(self.p, np.float64)
                self.mv = lambda X: X[self.p]
            else:
                self.a, self.bb, self.c = rng.random(self.n - 1), 3 + rng.random(self.n), rng.random(self.n - 1)
                self.op = ops.Tridiagonal(self.a, self.bb, self.c)
                self.mv = lambda X: self.bb[:, None] * X + np.vstack([np.zeros((1, X.shape[1])), self.a[:, None] * X[:-1]]) + \
                    np.vstack([self.c[:, None] * X[1:], np.zeros((1, X.shape[1]))])
        else:
            raise ValueError(kind)


POW_EXP = {"pow-2": -2, "pow3": 3, "pow10": 10, "pow0.5f32": np.float32(0.5)}
ENTRY = {
    "Kronecker": ["matvec", "matmat", "rmatvec", "inv", "solve", "logdet", "slogdet", "diag", "trace", "sqrt", "isqrt", "pow2.5", "pow-1", "cholesky", "plu",
                  "pow-2", "pow3", "pow10", "pow0.5f32"],  # integer-typed exponents on both sides of the generic shortcuts (-1..9), NumPy scalars
    "KronSum": ["matvec", "matmat", "exp", "diag", "trace"],
    "BlockDiag": ["matvec", "matmat", "inv", "solve", "logdet", "diag", "trace", "sqrt", "exp", "log", "apply_unary", "cholesky", "plu", "pow2.5"],
    "Diagonal": ["matvec", "matmat", "inv", "logdet", "diag", "trace", "exp", "sqrt", "cholesky", "plu", "pow2.5"],
    "ScalarMul": ["matvec", "inv", "logdet", "diag", "trace", "exp", "sqrt", "cholesky", "plu"],
    "Identity": ["matvec", "inv", "logdet", "diag", "trace", "exp", "cholesky", "plu"],
    "Permutation": ["matvec", "matmat", "inv"],
    "Tridiagonal": ["matvec", "matmat"],
    "KronDiag": ["matvec", "matmat", "inv", "solve", "slogdet", "diag", "trace"],
    "KronScaled": ["matvec", "inv", "slogdet", "diag", "trace"],
    "KronPlusDiag": ["matvec", "matmat", "diag", "trace"],
}
ALG_VARIANTS = {"cholesky": ["function", "object-call"], "plu": ["function", "object-call"],  # cholesky(A) / Cholesky()(A), plu(A) / LU()(A)
                "inv": ["omitted", "Auto", "LU", "Cholesky"], "solve": ["omitted", "Auto"], "logdet": ["omitted", "Auto", "LU"], "slogdet": ["omitted", "Auto"],
                "diag": ["omitted", "Exact"], "trace": ["omitted", "Exact"], "sqrt": ["omitted", "Auto", "Eigh"], "isqrt": ["omitted", "Eigh"],
                "pow2.5": ["omitted", "Auto", "Eigh"], "pow-1": ["omitted", "Auto"], "pow-2": ["omitted", "Eigh"], "pow3": ["omitted"], "pow10": ["omitted", "Eigh"],
                "pow0.5f32": ["omitted", "Eigh"], "exp": ["omitted", "Auto", "Eigh"], "log": ["omitted", "Eigh"],
                "apply_unary": ["omitted", "Eigh"]}


def gen(tier, rng, shard, nshards):
    combos = [(k, e, a) for k in ENTRY for e in ENTRY[k] for a in ALG_VARIANTS.get(e, ["-"])]
    reps = 2 if tier == "quick" else 6
    for r in range(reps):
        for i, (k, e, a) in enumerate(combos):
            if (i + r) % nshards == shard:
                # both sides of the 1e6-entry threshold at which the automatic rules change their choice
                yield {"kind": k, "entry": e, "alg": a, "seed": S.seed(rng), "side": ["small", "large", None][r % 3]}


def algs(name):
    from cola import linalg as L
    return {"omitted": (), "-": (), "function": (), "object-call": (), "Auto": (L.Auto(), ), "LU": (L.LU(), ), "Cholesky": (L.Cholesky(), ), "Exact": (L.Exact(), ), "Eigh": (L.Eigh(), )}[name]


def run_case(ctx, case):
    from cola import linalg as L
    from cola.linalg.decompositions.decompositions import cholesky, plu
    TAP.install()
    DISPATCH.install()
    rng = P.rng_for("c19", case["seed"])
    inst = Instance(case["kind"], rng, case.get("side"))
    ctx.count("side_of_1e6_entries", "n<=1000" if inst.n <= 1000 else "n>1000")
    if getattr(inst, "scalar_form", None):
        ctx.count("scalar_form", inst.scalar_form)
    n = inst.n
    A = inst.op
    e = case["entry"]
    al = algs(case["alg"])
    ctx.begin_case(case, sig=f"{case['kind']}|{e}|{case['alg']}", nontrivial=True)
    ctx.count("kind", case["kind"])
    ctx.count("entry", e)
    preds = {"kind": case["kind"], "entry": e, "alg_given": case["alg"] not in ("omitted", "-")}
    x = rng.standard_normal(n)
    X = rng.standard_normal((n, 3))
    ncols = {"matmat": 3}.get(e, 1)

    def act(F):  # action of a returned operator on x, still under the monitors
        return F @ x

    def job():
        if e == "matvec":
            return A @ x
        if e == "matmat":
            return A @ X
        if e == "rmatvec":
            return x @ A
        if e == "inv":
            return act(L.inv(A, *al))
        if e == "solve":
            return L.solve(A, x, *al)
        if e == "logdet":
            return L.logdet(A, *al)
        if e == "slogdet":
            return L.slogdet(A, *al)
        if e == "diag":
            return L.diag(A, 0, *al) if al else L.diag(A)
        if e == "trace":
            return L.trace(A, *al)
        if e == "sqrt":
            return act(L.sqrt(A, *al))
        if e == "isqrt":
            return act(L.isqrt(A, *al))
        if e == "pow2.5":
            return act(L.pow(A, 2.5, *al))
        if e in POW_EXP:
            return act(L.pow(A, POW_EXP[e], *al))
        if e == "pow-1":
            return act(L.pow(A, -1, *al))
        if e == "exp":
            return act(L.exp(A, *al))
        if e == "log":
            return act(L.log(A, *al))
        if e == "apply_unary":
            return act(L.apply_unary(np.cos, A, *al))
        if e == "cholesky":
            # (only forward products: the adjoint of a Kronecker factor would go through the harness shim's
            # linear_transpose, which materialises the map - that is the shim's cost, not cola's)
            Lf = cholesky(A) if case["alg"] != "object-call" else L.Cholesky()(A)
            return Lf @ x
        if e == "plu":
            Pf, Lf, Uf = plu(A) if case["alg"] != "object-call" else L.LU()(A)
            return Pf @ (Lf @ (Uf @ x))
        raise ValueError(e)

    DISPATCH.keep_events = True
    DISPATCH.reset()
    tracemalloc.start()
    tracemalloc.reset_peak()
    base = tracemalloc.get_traced_memory()[0]
    TAP.on = True
    try:
        out = ctx.call(job)
    finally:
        TAP.on = False
        peak = tracemalloc.get_traced_memory()[1] - base
        tracemalloc.stop()
        DISPATCH.keep_events = False
    events = list(DISPATCH.events)
    if is_err(out) and out.type == "DensificationEvent":
        ctx.check("no-densification-event", False, site=e, preds=preds, detail={"event": out.msg, "n": n})
        return
    ctx.check("no-densification-event", True)
    if is_err(out):
        ctx.check("returns", False, site=e, preds=preds, detail={"error": repr(out), "n": n})
        return
    # the generic base case must not be selected for the top-level structured operand
    generic = [ev for ev in events if ev[1] and ev[1][0].startswith(type(A).__name__.split("[")[0]) and "LinearOperator" in ev[2].split("(")[1].split(",")[0]
               and ev[0] in ("inv", "slogdet", "apply_unary", "cholesky", "plu", "exp", "pow") and min(A.shape) >= N_BIG]
    if e not in ("matvec", "matmat", "rmatvec", "log") and case["kind"] in ("Kronecker", "KronSum", "BlockDiag", "Diagonal", "ScalarMul", "Identity"):
        # (cholesky/plu of a Sum or Product have no structural rule: only kinds with one are judged)
        top_generic = [ev for ev in generic if ev[0] not in ("pow", "exp") or "Kron" in ev[2] or True]
        bad = [ev[2] for ev in top_generic if ev[0] in ("inv", "slogdet", "cholesky", "plu") and "LinearOperator, " in ev[2] or
               (ev[0] in ("cholesky", "plu") and ev[2].endswith("(LinearOperator)"))]
        ctx.check("structural-rule-selected", not bad, site=e, preds=preds, detail={"generic_rules": bad[:3]})
    bound = KAPPA * (n * ncols + inst.storage + n) * 8
    if e in ("diag", "trace") and case["kind"] in ("KronDiag", "KronScaled"):
        # (no structural diag rule for a scaled / diagonally weighted Kronecker product: the exact algorithm probes with blocks of
        # 100 columns, O(n * 100) memory - still far from n^2 for the sizes judged here)
        bound = max(bound, 10 * n * 100 * 8)  # (measured on the pinned tree: 4.8 blocks of n x 100 doubles)
        if bound > 0.7 * n * n * 8:
            ctx.count("probing_bound_not_decidable_at_this_size", e)
            bound = float("inf")
    ctx.check("peak-memory-bounded", bool(peak <= bound), site=e, preds=preds,
              detail={"peak_bytes": int(peak), "bound_bytes": (int(bound) if np.isfinite(bound) else None), "dense_bytes": int(n * n * 8), "n": n})
    if np.isfinite(bound):
        ctx.notes["max_peak_over_bound_x1000"] = max(ctx.notes.get("max_peak_over_bound_x1000", 0), int(1000 * peak / bound))
    # fast but wrong is not accepted: compare with the factor-wise reference
    ok, detail = verify(case, inst, e, out, x, X)
    ctx.check("result-correct", bool(ok), site=e, preds=preds, detail=detail)


def verify(case, inst, e, out, x, X):
    kind, n = case["kind"], inst.n
    mv = inst.mv
    tol = 1e-7

    def close(a, b):
        a, b = np.asarray(a), np.asarray(b)
        return a.shape == b.shape and np.linalg.norm(a - b) <= tol * max(np.linalg.norm(b), 1e-300), {"rel": float(np.linalg.norm(a - b) / max(np.linalg.norm(b), 1e-300)) if a.shape == b.shape else None}

    if e == "matvec":
        return close(out, mv(x[:, None])[:, 0])
    if e == "matmat":
        return close(out, mv(X))
    if e == "rmatvec":  # symmetric factors
        return close(out, mv(x[:, None])[:, 0])
    if e in ("inv", "solve", "pow-1"):
        return close(mv(np.asarray(out)[:, None])[:, 0], x)
    if e == "plu":
        return close(out, mv(x[:, None])[:, 0])
    if e == "cholesky":  # the Cholesky factor of a positive definite matrix is unique: factor-wise reference
        Fs_ = getattr(inst, "Fs", None)
        if kind == "Kronecker":
            return close(out, kron_mv([np.linalg.cholesky(F) for F in Fs_], x[:, None])[:, 0])
        if kind == "BlockDiag":
            return close(out, blockdiag_mv([np.linalg.cholesky(F) for F in Fs_], inst.mults, x[:, None])[:, 0])
        if kind == "Diagonal":
            return close(out, np.sqrt(inst.d) * x)
        if kind == "ScalarMul":
            return close(out, np.sqrt(1.5) * x)
        return close(out, x)
    Fs = getattr(inst, "Fs", None)
    if e in ("logdet", "slogdet"):
        val = out[1] if e == "slogdet" else out
        if kind in ("Kronecker", "KronScaled", "KronDiag"):
            want = sum(np.linalg.slogdet(F)[1] * n / F.shape[0] for F in Fs)
            if kind == "KronScaled":
                want += n * np.log(2.0)
            if kind == "KronDiag":
                want += np.sum(np.log(inst.d))
        elif kind == "BlockDiag":
            want = sum(np.linalg.slogdet(F)[1] * m for F, m in zip(Fs, inst.mults))
        elif kind == "Diagonal":
            want = np.sum(np.log(inst.d))
        elif kind == "ScalarMul":
            want = n * np.log(1.5)
        else:
            want = 0.0
        return bool(abs(complex(np.asarray(val).reshape(-1)[0]) - want) <= 1e-7 * max(abs(want), 1.0)), {"got": complex(np.asarray(val).reshape(-1)[0]), "want": float(want)}
    if e in ("diag", "trace"):
        if kind in ("Kronecker", "KronPlusDiag", "KronDiag", "KronScaled"):
            d = Fs[0].diagonal()
            for F in Fs[1:]:
                d = np.kron(d, F.diagonal())
            if kind == "KronPlusDiag":
                d = d + inst.d
            if kind == "KronDiag":
                d = d * inst.d  # diag(K @ D) = diag(K) * d
            if kind == "KronScaled":
                d = 2.0 * d
        elif kind == "KronSum":
            d = np.zeros(1)
            for F in Fs:
                d = (d[:, None] + F.diagonal()[None, :]).reshape(-1)
        elif kind == "BlockDiag":
            d = np.concatenate([F.diagonal() for F, m in zip(Fs, inst.mults) for _ in range(m)])
        elif kind == "Diagonal":
            d = inst.d
        elif kind == "ScalarMul":
            d = 1.5 * np.ones(n)
        else:
            d = np.ones(n)
        return close(out, d if e == "diag" else d.sum())
    f = {"sqrt": lambda F: fpow(F, 0.5), "isqrt": lambda F: fpow(F, -0.5), "pow2.5": lambda F: fpow(F, 2.5), "exp": sla.expm, "log": sla.logm,
         "apply_unary": sla.cosm, **{k: (lambda F, a=float(v): fpow(F, a)) for k, v in POW_EXP.items()}}[e]
    if kind == "Kronecker":
        return close(out, kron_mv([f(F) for F in Fs], x[:, None])[:, 0])
    if kind == "KronSum":
        return close(out, kron_mv([sla.expm(F) for F in Fs], x[:, None])[:, 0])
    if kind == "BlockDiag":
        return close(out, blockdiag_mv([f(F) for F in Fs], inst.mults, x[:, None])[:, 0])
    sf = {"sqrt": np.sqrt, "isqrt": lambda t: 1 / np.sqrt(t), "pow2.5": lambda t: t**2.5, "exp": np.exp, "log": np.log, "apply_unary": np.cos}[e]
    if kind == "Diagonal":
        return close(out, sf(inst.d) * x)
    if kind == "ScalarMul":
        return close(out, sf(1.5) * x)
    return close(out, sf(1.0) * x)
