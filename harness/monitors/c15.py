"""C15 - Arnoldi returns an orthonormal Krylov basis satisfying the Arnoldi relation (DESIGN 4/C15)."""
import numpy as np

import cola
from harness import payload as P
from harness import spec as S
from harness.core import is_err
from harness.monitors import c13

SIZES = {"quick": 50, "thorough": 1000}


def gen(tier, rng, shard, nshards):
    for i in range(SIZES[tier]):
        if rng.random() < 0.05:
            yield {"kernel": S.pick(rng, ["nilpotent", "singular-diagonal", "zero-operator"]), "n": int(S.pick(rng, [1, 2, 3, 5, 8])), "dt": S.pick(rng, ["f8", "c16"]),
                   "m": S.pick(rng, ["1", "n", "n+3"]), "tol": float(S.pick(rng, [0.0, 1e-12, 1e-8, 1e-5])), "fn": S.pick(rng, ["arnoldi", "Arnoldi()"]), "seed": S.seed(rng)}
            continue
        n = int(S.pick(rng, [1, 2, 3, 4, 6, 8, 12, 20, 30, 40] + ([80, 120, 200] if tier == "thorough" else [])))
        yield {"n": n, "dt": S.pick(rng, ["f8", "f8", "c16"]), "normal": bool(rng.random() < 0.4), "seed": S.seed(rng), "cols": 0,
               "rhs": S.pick(rng, ["generic", "generic", "eigvec", "few-eigvecs"]), "x0": "none",
               "start": S.pick(rng, ["given", "given", "given", "default", "batched"]),
               "m": S.pick(rng, ["1", "2", "n//2", "n-1", "n", "n+3", "n+10", "default"]),
               "tol": float(S.pick(rng, [1e-12, 1e-12, 1e-8, 1e-5, 0.0])), "fn": S.pick(rng, ["arnoldi", "arnoldi", "arnoldi", "arnoldi_eigs", "Arnoldi()"]),
               "real_start": bool(rng.random() < 0.3), "wide_start": bool(rng.random() < 0.25), "opscale": float(S.pick(rng, [1.0, 1.0, 1.0, 1e-9, 1e9])),
               "vscale": float(S.pick(rng, [1.0, 1.0, 1.0, 1e-12, 1e-30, 1e-9, 1e15])),
               "near_inv": bool(rng.random() < 0.3), "narrow_op": bool(rng.random() < 0.25)}
        if rng.random() < 0.05:
            # a matrix-free operator whose product hands back a *view* of its operand (the exchange matrix): the routine must not
            # update its working vector in place (Krylov dimension 2: the run also ends in a numerical breakdown)
            yield {"n": int(S.pick(rng, [2, 3, 4, 6, 8])), "dt": S.pick(rng, ["f8", "c16"]), "normal": True, "seed": S.seed(rng), "cols": 0, "rhs": "generic", "x0": "none",
                   "start": S.pick(rng, ["given", "given", "batched"]), "m": S.pick(rng, ["2", "n", "n+3", "default"]), "tol": float(S.pick(rng, [1e-8, 1e-6])),
                   "fn": S.pick(rng, ["arnoldi", "arnoldi_eigs", "Arnoldi()"]), "opscale": 1.0, "vscale": 1.0, "opview": True}


def min_rel_residual(M, v, m):
    return c13.min_residual(M, v, np.zeros_like(v), m) / max(np.linalg.norm(v), 1e-300)


def judge_one(ctx, case, M, v, Q, H, m_req, degree, preds):
    n = M.shape[0]
    eps = 2.3e-16
    normA = max(np.linalg.norm(M, 2), 1e-300)
    kappa = float(np.linalg.cond(M))
    tol = case["tol"]
    ok_shape = Q.shape == (n, m_req + 1) and H.shape == (m_req + 1, m_req)
    ctx.check("shapes", bool(ok_shape), site="arnoldi", preds=preds, detail={"Q": list(Q.shape), "H": list(H.shape), "m": m_req, "n": n})
    if not ok_shape:
        return
    if not (np.all(np.isfinite(Q)) and np.all(np.isfinite(H))):
        ctx.check("finite", False, site="arnoldi", preds=preds, detail={"m": m_req})
        return
    ctx.check("finite", True)
    ctx.check("first-column", bool(np.linalg.norm(Q[:, 0] - v / np.linalg.norm(v)) <= 1e-13), site="arnoldi", preds=preds,
              detail={"dev": float(np.linalg.norm(Q[:, 0] - v / np.linalg.norm(v)))})
    m_eff = min(m_req, n)
    # Hessenberg pattern with non-negative real sub-diagonal
    low = np.tril(H, -2)
    sub = np.diag(H, -1)
    tt = 1e3 * eps * normA * max(n, 4)
    ctx.check("H-upper-hessenberg-nonneg-subdiagonal", bool(np.abs(low).max(initial=0.0) <= tt and np.abs(np.imag(sub)).max(initial=0.0) <= tt and
                                                          np.all(np.real(sub) >= -tt)), site="arnoldi", preds=preds,
              detail={"below": float(np.abs(low).max(initial=0.0)), "sub_imag": float(np.abs(np.imag(sub)).max(initial=0.0)),
                      "sub_min": float(np.real(sub).min(initial=0.0))})
    # steps actually run: leading non-zero columns of H (the spectra here have modulus >= 1, so A q_j is never zero).  A run that
    # stopped early (breakdown by the routine's own tolerance) is the s-step factorisation A Q[:, :s] = Q[:, :s+1] H[:s+1, :s]
    # padded with zeros; everything after it must be exactly zero (Q[:, s] itself, the (s+1)-th basis vector, may be kept)
    nz = [j for j in range(H.shape[1]) if np.abs(H[:, j]).max(initial=0.0) > 0]
    s_run = (max(nz) + 1) if nz else 0
    s_run = min(s_run, m_eff)
    pad = max(np.abs(H[:, s_run:]).max(initial=0.0), np.abs(Q[:, s_run + 1:]).max(initial=0.0), np.abs(H[s_run + 1:, :]).max(initial=0.0))
    ctx.check("zero-after-the-steps-run", bool(pad == 0), site="arnoldi", preds=preds, detail={"max_abs": float(pad), "steps_run": s_run, "m": m_req, "n": n})
    if s_run < m_eff:
        # stopping before the cap is only admissible as a breakdown: the last sub-diagonal entry is below tol relative to the
        # scale the routine uses (||A q_0||, or ||A q_j|| for the freezing of exhausted columns)
        last = abs(H[s_run, s_run - 1]) if s_run >= 1 else 0.0
        scl = max(np.linalg.norm(H[:, 0]), np.linalg.norm(H[:, s_run - 1]) if s_run >= 1 else 0.0)
        ctx.check("early-stop-is-a-breakdown", bool(s_run >= 1 and last <= tol * scl * (1 + 1e-9)), site="arnoldi", preds=preds,
                  detail={"steps_run": s_run, "cap": m_eff, "last_subdiagonal": float(last), "tol_times_scale": float(tol * scl)})
    # Arnoldi relation on the steps run (the clipped normalisation is part of the algorithm: + tol ||A||)
    Rm = M @ Q[:, :s_run] - (Q @ H)[:, :s_run]
    ctx.check("arnoldi-relation", bool(np.abs(Rm).max(initial=0.0) <= 1e3 * eps * normA * n + 10 * tol * normA), site="arnoldi", preds=preds,
              detail={"dev": float(np.abs(Rm).max(initial=0.0)), "normA": normA, "tol": tol, "steps_run": s_run})
    # orthonormality of the columns produced (at most min(m+1, d)), to the accuracy a two-pass MGS Arnoldi has,
    # judged while the reference minimal relative residual rho_m >= 1e-8 (beyond it the routine may rightly call a breakdown)
    d = n if degree is None else min(degree, n)
    produced = s_run + (1 if s_run + 1 <= Q.shape[1] and np.abs(Q[:, min(s_run, Q.shape[1] - 1)]).max(initial=0.0) > 0 else 0)
    cols = min(m_eff + 1, d, n, max(produced, 1))
    rho = min_rel_residual(M.astype(complex if np.iscomplexobj(M) else float), v.astype(complex if np.iscomplexobj(M) else float), max(cols - 1, 0)) if cols > 1 else 1.0
    if rho >= 1e-8:
        G = Q[:, :cols].conj().T @ Q[:, :cols]
        dev = float(np.abs(G - np.eye(cols)).max(initial=0.0))
        # two Gram-Schmidt passes ("twice is enough"): the loss is O(eps kappa) whatever rho; measured on the unchanged tree
        # over the thorough tier: <= 3 eps kappa.  (A single pass would lose eps kappa / rho.)
        bound = 500 * eps * kappa
        ctx.notes["max_orth_dev_over_eps_kappa"] = max(ctx.notes.get("max_orth_dev_over_eps_kappa", 0), int(dev / (eps * kappa)))
        ctx.check("orthonormal-basis", bool(dev <= bound), site="arnoldi", preds=preds, detail={"dev": dev, "bound": bound, "cols": cols, "rho": rho})
    else:
        ctx.note("orthonormality_skipped_exhausted_krylov_space")
    # more than n steps: extra rows / columns are zero
    if m_req > n:
        extra = max(np.abs(H[:, n:]).max(initial=0.0), np.abs(H[n + 1:, :]).max(initial=0.0), np.abs(Q[:, n + 1:]).max(initial=0.0))
        ctx.check("padding-is-zero", bool(extra == 0), site="arnoldi", preds=preds, detail={"max_abs": float(extra), "m": m_req, "n": n})


def run_kernel(ctx, case):
    """Start vectors with A v = 0 *identically* (nilpotent / singular diagonal / zero operators): the breakdown happens at the
    first step with an exactly zero new direction; nothing may become NaN, the basis is v/||v|| padded with zeros, H is zero."""
    from cola.linalg import Arnoldi
    from cola.linalg.decompositions.arnoldi import arnoldi
    n, kind = case["n"], case["kernel"]
    dtype = np.complex128 if case["dt"] == "c16" else np.float64
    rng = P.rng_for("c15k", case["seed"])
    if kind == "nilpotent":
        M = np.triu(rng.integers(1, 4, size=(n, n)).astype(float), 1)
        v = np.zeros(n)
        v[0] = 2.0
    elif kind == "singular-diagonal":
        d = np.arange(n, dtype=float)
        M = np.diag(d)
        v = np.zeros(n)
        v[0] = -3.0
    else:
        M = np.zeros((n, n))
        v = rng.integers(1, 5, size=n).astype(float)
    M, v = M.astype(dtype), v.astype(dtype)
    m = {"1": 1, "n": n, "n+3": n + 3}[case["m"]]
    ctx.begin_case(case, sig=f"kernel|{kind}|{n}|{case['dt']}|{case['m']}|{case['tol']}|{case['fn']}", nontrivial=True)
    preds = {"kernel": kind, "complex": case["dt"] == "c16", "fn": case["fn"]}
    A = cola.ops.Dense(M)
    out = ctx.call(Arnoldi(start_vector=v, max_iters=m, tol=case["tol"]), A) if case["fn"] == "Arnoldi()" else \
        ctx.call(arnoldi, A, v, m, case["tol"])
    if is_err(out):
        ctx.check("returns", False, site="arnoldi", preds=preds, detail={"error": repr(out)})
        return
    ctx.check("returns", True)
    Q, H = np.asarray(out[0].to_dense()), np.asarray(out[1].to_dense())
    ok = bool(np.all(np.isfinite(Q)) and np.all(np.isfinite(H)))
    ctx.check("finite", ok, site="arnoldi", preds=preds, detail={"m": m})
    if not ok:
        return
    ctx.check("first-column", bool(np.linalg.norm(Q[:, 0] - v / np.linalg.norm(v)) <= 1e-13), site="arnoldi", preds=preds, detail=None)
    rest = max(np.abs(Q[:, 1:]).max(initial=0.0), np.abs(H).max(initial=0.0))
    ctx.check("zero-after-the-steps-run", bool(rest == 0), site="arnoldi", preds=preds, detail={"max_abs": float(rest)})


def later_call(ctx, case, A, kw, results, preds):
    """What a call returned is the caller's: a *later* call of the same routine with arguments of the same shapes and dtypes
    (another operator, another start vector) leaves the earlier factorisation alone.  The results are hashed, the later call
    is made, the hashes are verified (write sanitizer) -- all before the factorisation is judged."""
    from cola.linalg.decompositions.arnoldi import arnoldi
    if case["seed"] % 2:
        return
    ctx.retain(*results, label="arnoldi-factorisation")
    M2 = np.asarray(A.to_dense())
    A2 = cola.ops.Dense((M2.T + np.eye(M2.shape[0])).astype(M2.dtype))
    kw2 = dict(kw)
    if "start_vector" in kw2:
        kw2["start_vector"] = (np.asarray(kw2["start_vector"])[::-1] * 2).copy()
    kw2.pop("key", None)
    if "start_vector" not in kw2:
        kw2["key"] = 9
    ctx.call(arnoldi, A2, **kw2)
    ctx.verify_guards(site="later-call-of-the-same-shapes")
    ctx.count("later_call", "same-shapes")


def run_case(ctx, case):
    if case.get("kernel"):
        return run_kernel(ctx, case)
    from cola.backends import np_fns
    from cola.linalg import Arnoldi
    from cola.linalg.decompositions.arnoldi import arnoldi, arnoldi_eigs
    M, b, _, degree = c13.build(case)
    n = M.shape[0]
    cplx = np.iscomplexobj(M)
    if np.linalg.norm(b) == 0:  # (a real matrix without real eigenvalues has no real eigenvector to start from)
        b = P.rng_for("c15b", case["seed"]).standard_normal(n).astype(M.dtype)
        degree = None
    if np.linalg.cond(M) > 1e2:
        ctx.note("skipped_out_of_regime_cond")
        return
    if case.get("opview"):
        degree = min(2, n)  # (the exchange matrix has the eigenvalues +-1 only: every Krylov space has dimension <= 2)
    perturbed = False
    if case.get("near_inv") and case["rhs"] in ("eigvec", "few-eigvecs") and degree is not None and n > 2:
        # a start vector that is only *nearly* inside an invariant subspace: after `degree` steps the new direction is small
        # (1e-9 relative) but real - not a breakdown for any tolerance below that
        g_ = P.rng_for("c15near", case["seed"]).standard_normal(n) + (1j * P.rng_for("c15near2", case["seed"]).standard_normal(n) if cplx else 0)
        b = (b + 1e-9 * np.linalg.norm(b) * g_ / np.linalg.norm(g_)).astype(b.dtype)
        degree = None
        perturbed = True
        ctx.count("start_vector_class", "nearly-invariant")
    if case.get("narrow_op") and case["start"] != "default":
        # an operator stored in single precision with a double-precision start vector: the factorisation runs in the promoted
        # (double) precision on the operator's single-precision *values*
        M32 = M.astype(np.complex64 if cplx else np.float32)
        M = M32.astype(M.dtype)
        if case["rhs"] != "generic":
            degree, perturbed = None, True  # (the start vector was built from eigenvectors of the unrounded matrix)
        ctx.count("operator_storage", "single-precision-values")
    else:
        M32 = None
    vs = float(case.get("vscale", 1.0))
    if vs != 1.0:
        b = (b * vs).astype(b.dtype)  # the factorisation depends on the direction of the start vector only, not on its length
        ctx.count("start_vector_length", f"{vs:g}")
    m_req = {"1": 1, "2": 2, "n//2": max(1, n // 2), "n-1": max(1, n - 1), "n": n, "n+3": n + 3, "n+10": n + 10, "default": None}[case["m"]]
    ctx.begin_case(case, sig="|".join(f"{k}={case[k]}" for k in ("n", "dt", "normal", "rhs", "start", "m", "tol", "fn")), nontrivial=True)
    for key in ("rhs", "start", "m", "fn"):
        ctx.count(key, case[key])
    A = cola.ops.Dense(M if M32 is None else M32)
    if case.get("opview"):
        A = cola.ops.LinearOperator(M.dtype, M.shape, matmat=lambda X: X[::-1])
    preds = {"start": case["start"], "rhs": case["rhs"], "complex": cplx, "fn": case["fn"],
             "m_class": "default" if m_req is None else ("m<n" if m_req < n else ("m=n" if m_req == n else "m>n"))}
    kw = {"tol": case["tol"]}
    if m_req is not None:
        kw["max_iters"] = P.count_form(m_req, case["seed"] // 3)
    default_m = {"arnoldi": 100, "arnoldi_eigs": 100, "Arnoldi()": 1000}[case["fn"] if case["start"] != "batched" else "arnoldi"]
    m_used = default_m if m_req is None else m_req
    rng = P.rng_for("c15", case["seed"])
    if case["start"] == "default":
        kw["key"] = 5
        v = np_fns.randn(n, dtype=M.dtype, key=5)
        degree = None
    elif case["start"] == "batched":
        extra = (rng.standard_normal((n, 2)) + (1j * rng.standard_normal((n, 2)) if cplx else 0)).astype(M.dtype)
        if vs != 1.0:
            extra = (extra * np.array([1.0 / vs if 1e-15 < vs < 1e15 else 1.0, vs])[None, :]).astype(M.dtype)  # very different lengths in one batch
        v = np.concatenate([b.reshape(n, 1), extra], axis=1)
        kw["start_vector"] = v
    else:
        v = b
        if cplx and case.get("real_start") and case["rhs"] == "generic":
            v = np.ascontiguousarray(v.real)  # a real start vector for a complex operator (narrower dtype than the operator)
            preds["start_narrower_than_operator"] = True
        if not cplx and case.get("wide_start") and case["rhs"] == "generic":
            v = (v + 1j * rng.standard_normal(v.shape)).astype(np.complex128)  # a complex start vector for a real operator
            preds["start_wider_than_operator"] = True
        kw["start_vector"] = v
    if case["fn"] == "arnoldi_eigs" and case["start"] != "batched":
        out = ctx.call(arnoldi_eigs, A, **kw)
        if is_err(out):
            ctx.check("returns", False, site="arnoldi_eigs", preds=preds, detail={"error": repr(out)})
            return
        ctx.check("returns", True)
        vals, V, _ = out
        vals = np.asarray(vals).astype(complex)
        Vd = np.asarray(V.to_dense()).astype(complex)
        # (a start vector that is nearly inside an invariant subspace makes the full-run spectrum ill conditioned: the directions
        # beyond the subspace are normalised from 1e-9-sized vectors)
        if m_used >= n and degree is None and case["tol"] <= 1e-8 and not perturbed:
            ref = np.linalg.eigvals(M.astype(complex))
            # multiset match of the spectrum, no spurious values from padding
            ok = len(vals) == n
            used = np.zeros(n, dtype=bool)
            for x in vals:
                j = int(np.argmin(np.where(used, np.inf, np.abs(ref - x))))
                ok = ok and abs(ref[j] - x) <= 1e-6 * np.linalg.norm(M, 2)
                used[j] = True
            ctx.check("full-run-gives-spectrum", bool(ok), site="arnoldi_eigs", preds=preds, detail={"values": vals, "spectrum": ref, "n": n})
        # zero rows / columns that pad H (more steps asked than run: breakdown, or more than n) must not come back as
        # eigenvalues: no returned eigenvector column is zero and no returned value is 0 (the spectra here have modulus >= 1)
        normM = np.linalg.norm(M, 2)
        okz = Vd.shape == (n, len(vals)) and np.linalg.norm(Vd, axis=0).min(initial=1.0) > 1e-8 and (np.abs(vals).min() if len(vals) else np.inf) > 1e-8 * normM
        ctx.check("no-eigenpairs-from-padding", bool(okz), site="arnoldi_eigs", preds=preds,
                  detail={"values": vals, "m": m_used, "n": n, "min_vector_norm": float(np.linalg.norm(Vd, axis=0).min(initial=1.0)) if Vd.ndim == 2 else None})
        # (with tol = 0 a breakdown that is only numerical -- a residual of 1e-16, not an exact zero -- cannot be detected: the
        # routine rightly goes on, and the extra Ritz value is a Rayleigh quotient of rounding noise.  Regime: 1e-13 <= tol.)
        if degree is not None and degree < n and m_used > degree and 1e-13 <= case["tol"] <= 1e-8 and len(vals) <= degree + 1:
            # the breakdown was detected (fewer values than steps asked): the Krylov space is invariant, so every returned
            # value is an eigenvalue of A, each used once
            ref = list(np.linalg.eigvals(M.astype(complex)))
            ok, why = True, None
            for x in vals:
                j = int(np.argmin([abs(r - x) for r in ref])) if ref else -1
                if j < 0 or abs(ref[j] - x) > 1e-6 * normM:
                    ok, why = False, f"value {x} is not an (unused) eigenvalue"
                    break
                ref.pop(j)
            ctx.check("eigenvalues-exact-after-breakdown", bool(ok), site="arnoldi_eigs", preds=dict(preds, breakdown=True),
                      detail={"values": vals, "krylov_dim": degree, "m": m_used, "n": n, "why": why})
        res = np.linalg.norm(M.astype(complex) @ Vd - Vd * vals[None, :], axis=0) if Vd.shape == (n, len(vals)) else np.array([np.inf])
        ctx.notes["max_eigvec_residual_x1e6"] = max(ctx.notes.get("max_eigvec_residual_x1e6", 0), int(min(float(np.max(res)), 1e3) * 1e6))
        if False:  # eigenvector accuracy is not part of C15's statement (single-pass MGS loses orthogonality near exhaustion)
            ctx.check("eigenpairs-residual", bool(np.all(res <= 1e-6 * np.linalg.norm(M, 2) * np.maximum(np.linalg.norm(Vd, axis=0), 1e-300))),
                      site="arnoldi_eigs", preds=preds, detail={"max_res": float(np.max(res))})
        return
    if case["fn"] == "Arnoldi()" and case["start"] != "batched":
        out = ctx.call(Arnoldi(**kw), A)
    else:
        if case["seed"] % 3 == 0 and set(kw) == {"start_vector", "max_iters", "tol"}:  # documented positional form
            out = ctx.call(arnoldi, A, kw["start_vector"], kw["max_iters"], kw["tol"])
        else:
            out = ctx.call(arnoldi, A, **kw)
    if is_err(out):
        ctx.check("returns", False, site="arnoldi", preds=preds, detail={"error": repr(out)})
        return
    ctx.check("returns", True)
    Qop, Hop, info = out
    Qd, Hd = np.asarray(Qop.to_dense()), np.asarray(Hop.to_dense())
    later_call(ctx, case, A, kw, (Qop, Hop, Qd, Hd), preds)
    if case["start"] != "batched":
        judge_one(ctx, case, M, v, Qd, Hd, m_used, degree, preds)
        if m_req is not None and m_req > n:  # same factorisation as n steps
            out2 = ctx.call(arnoldi, A, **dict(kw, max_iters=n))
            if not is_err(out2):
                Q2, H2 = np.asarray(out2[0].to_dense()), np.asarray(out2[1].to_dense())
                same = Qd.shape[1] >= n + 1 and np.allclose(Qd[:, :n + 1], Q2, rtol=0, atol=1e-13) and np.allclose(Hd[:n + 1, :n], H2, rtol=0, atol=1e-13 * np.linalg.norm(M, 2))
                ctx.check("beyond-n-equals-n-steps", bool(same), site="arnoldi", preds=preds, detail={"m": m_req, "n": n})
        return
    ok = Qd.ndim == 3 and Hd.ndim == 3 and Qd.shape[0] == v.shape[1] == Hd.shape[0]
    ctx.check("batched-shapes", bool(ok), site="arnoldi", preds=preds, detail={"Q": list(Qd.shape), "H": list(Hd.shape)})
    if not ok:
        return
    for i in range(Qd.shape[0]):
        judge_one(ctx, case, M, v[:, i], Qd[i], Hd[i], m_used, degree if i == 0 else None, dict(preds, batch_col=i))
