"""C10 - eig returns the requested eigenpairs of the represented matrix (DESIGN 4/C10)."""
import numpy as np

import cola
from harness import build as B
from harness import payload as P
from harness import refmodel as R
from harness import spec as S
from harness.core import is_err

SIZES = {"quick": 140, "thorough": 3000}
OMIT = "omitted"


def distinct_mags(rng, n, lo=1.0, step=0.5):
    """magnitudes with relative gaps >= ~0.05, in random order"""
    m = lo + step * np.arange(n)
    return [float(x) for x in rng.permutation(m)]


def gen_matrix(rng, kind, n, dt, unit=1.0):
    cplx = dt in P.CPLX
    mags = [m * unit for m in distinct_mags(rng, n)]  # (eigenpairs do not depend on the unit the operator is expressed in)
    if kind in ("herm-definite", "herm-indefinite"):
        signs = np.ones(n) if kind == "herm-definite" else rng.choice([-1.0, 1.0], size=n)
        if kind == "herm-indefinite":
            signs[int(np.argmax(mags))] = S.pick(rng, [-1.0, 1.0])  # dominant eigenvalue of either sign
        eigs = [float(s * m) for s, m in zip(signs, mags)]
        leaf = {"k": S.pick(rng, ["Dense", "Generic"]), "shape": [n, n], "dt": dt, "seed": S.seed(rng), "gen": "herm", "eigs": eigs}
        return {"k": "Annot", "name": "SelfAdjoint" if kind == "herm-indefinite" else S.pick(rng, ["SelfAdjoint", "PSD"]), "arg": leaf}
    if kind == "general":
        eigs, i = [], 0
        while i < n:
            if not cplx and i + 1 < n and rng.random() < 0.5:  # complex-conjugate pair of equal modulus
                ang = float(S.pick(rng, [0.5, 1.0, 2.0]))
                z = mags[i] * np.exp(1j * ang)
                eigs += [{"re": float(z.real), "im": float(z.imag)}, {"re": float(z.real), "im": float(-z.imag)}]
                i += 2
            else:
                if cplx:
                    z = mags[i] * np.exp(1j * float(rng.uniform(-3, 3)))
                    eigs.append({"re": float(z.real), "im": float(z.imag)})
                else:
                    eigs.append({"re": float(mags[i] * S.pick(rng, [-1.0, 1.0])), "im": 0.0})
                i += 1
        return {"k": "Dense", "shape": [n, n], "dt": dt, "seed": S.seed(rng), "gen": "general", "eigs": eigs, "vcond": 2.0}
    if kind in ("general-lower", "general-upper", "general-absorbing"):
        # plain dense matrices with an exact zero pattern: eigenvectors with exactly zero coordinates
        if cplx:
            eigs = [{"re": float((m * np.exp(1j * a)).real), "im": float((m * np.exp(1j * a)).imag)} for m, a in zip(mags, rng.uniform(-3, 3, size=n))]
        else:
            eigs = [{"re": float(m * s), "im": 0.0} for m, s in zip(mags, rng.choice([-1.0, 1.0], size=n))]
        return {"k": S.pick(rng, ["Dense", "Dense", "Generic"]), "shape": [n, n], "dt": dt, "seed": S.seed(rng), "gen": "zeros",
                "pattern": kind.split("-")[1], "eigs": eigs, "vcond": 2.0}
    if kind == "general-blockdiag":
        # a block-diagonal operator of non-symmetric blocks (no structural eig rule: it goes through the general algorithms)
        sizes, left = [], n
        while left > 0:
            b = int(rng.integers(1, min(left, 4) + 1))
            sizes.append(b)
            left -= b
        blocks, off = [], 0
        for b in sizes:
            sub = mags[off:off + b]
            off += b
            if cplx:
                eigs = [{"re": float((m * np.exp(1j * a)).real), "im": float((m * np.exp(1j * a)).imag)} for m, a in zip(sub, rng.uniform(-3, 3, size=b))]
            else:
                eigs = [{"re": float(m * s), "im": 0.0} for m, s in zip(sub, rng.choice([-1.0, 1.0], size=b))]
            blocks.append({"k": "Dense", "shape": [b, b], "dt": dt, "seed": S.seed(rng), "gen": "general", "eigs": eigs, "vcond": 2.0})
        return {"k": "BlockDiag", "via": "ctor", "mult": [1] * len(blocks), "args": blocks}
    if kind == "Diagonal":
        if cplx:
            vals = [{"re": float((m * np.exp(1j * a)).real), "im": float((m * np.exp(1j * a)).imag)}
                    for m, a in zip(mags, rng.uniform(-3, 3, size=n))]
        else:
            vals = [float(m * s) for m, s in zip(mags, rng.choice([-1.0, 1.0], size=n))]
        return {"k": "Diagonal", "n": n, "dt": dt, "vals": vals}
    if kind == "Triangular":
        if cplx:
            d = [{"re": float((m * np.exp(1j * a)).real), "im": float((m * np.exp(1j * a)).imag)}
                 for m, a in zip(mags, rng.uniform(-3, 3, size=n))]
        else:
            d = [float(m * s) for m, s in zip(mags, rng.choice([-1.0, 1.0], size=n))]
        return {"k": "Triangular", "n": n, "dt": dt, "seed": S.seed(rng), "lower": bool(rng.random() < 0.5), "diag": d}
    if kind == "Identity":
        return {"k": "Identity", "n": n, "dt": dt}
    raise ValueError(kind)


def gen(tier, rng, shard, nshards):
    for i in range(SIZES[tier]):
        dt = S.pick(rng, ["f8", "f8", "c16", "c16"])
        kind = S.pick(rng, ["herm-definite", "herm-indefinite", "herm-indefinite", "general", "general", "Diagonal", "Triangular",
                            "Triangular", "Identity", "general-lower", "general-upper", "general-absorbing", "general-blockdiag"])
        n = int(rng.integers(1, 9)) if rng.random() < 0.75 else int(S.pick(rng, [12, 20, 30] + ([50, 80] if tier == "thorough" else [])))
        unit = float(S.pick(rng, [1.0, 1.0, 1.0, 1e-8, 1e8])) if kind in ("herm-definite", "herm-indefinite", "general", "Diagonal", "general-blockdiag") else 1.0
        extreme = kind in ("herm-definite", "herm-indefinite", "general", "Diagonal") and rng.random() < 0.08
        if extreme:
            # units in which |lambda|^2 leaves the floating range while |lambda| does not (ordering by magnitude must not square)
            unit = float(S.pick(rng, [1e-170, 1e-200, 1e160]))
        node = gen_matrix(rng, kind, n, dt, unit)
        k = int(rng.integers(1, n + 1)) if rng.random() < 0.8 else n
        which = S.pick(rng, ["LM", "SM"])
        herm = kind.startswith("herm")
        if herm:
            alg = S.pick(rng, [OMIT, "Auto", "Eigh", "Eigh", "Eig", "Lanczos", "Arnoldi", "PowerIteration"])
        elif kind.startswith("general"):
            alg = S.pick(rng, [OMIT, "Auto", "Eig", "Eig", "Arnoldi", "Arnoldi", "PowerIteration"])
        else:
            alg = S.pick(rng, [OMIT, "Auto", "Eig", "Arnoldi"])
        if extreme and kind != "Diagonal":
            alg = S.pick(rng, ["Eigh", "Eig"] if herm else ["Eig"])  # (the dense algorithms; Krylov inner products would square the unit)
        if alg == "PowerIteration":
            k, which = 1, "LM"
        cap = S.pick(rng, ["n", "n+4", "default"])
        if rng.random() < 0.04:
            # directed: the dominant pair of a small Hermitian definite operator in tiny / huge units through power iteration
            # (explicitly and as the automatic choice for k = 1, 'LM')
            n = int(S.pick(rng, [2, 3, 4]))
            kind, k, which = "herm-definite", 1, "LM"
            node = gen_matrix(rng, kind, n, dt, float(S.pick(rng, [1e-8, 1e-8, 1e8])))
            alg = S.pick(rng, [OMIT, "Auto", "PowerIteration"])
        yield {"spec": node, "kind": kind, "k": k, "which": which, "alg": alg, "cap": cap, "fn": S.pick(rng, ["eig", "eig", "eig", "eigmax", "eigmin"]), "reuse": bool(rng.random() < 0.3),
               "prime": S.pick(rng, [None, None, None, "shifted", "squared"]) if not extreme else None}


def make_alg(case, n):
    from cola.linalg import Arnoldi, Auto, Eig, Eigh, Lanczos, PowerIteration
    kw = {} if case["cap"] == "default" else {"max_iters": n if case["cap"] == "n" else n + 4}
    return {"Auto": Auto(), "Eigh": Eigh(), "Eig": Eig(), "Lanczos": Lanczos(tol=1e-13, **kw), "Arnoldi": Arnoldi(tol=1e-13, **kw),
            "PowerIteration": PowerIteration(tol=1e-13, max_iter=400)}[case["alg"]]


def selection_ok(vals, ref_eigs, which, tol):
    """tie-aware: returned values match distinct reference eigenvalues injectively, and every unmatched reference
    eigenvalue has magnitude <= (LM) / >= (SM) every returned one, up to tol."""
    ref = list(ref_eigs)
    used = [False] * len(ref)
    for v in vals:
        best, bi = None, -1
        for i, r in enumerate(ref):
            if not used[i] and (best is None or abs(v - r) < best):
                best, bi = abs(v - r), i
        if bi < 0 or best > tol:
            return False, f"value {v} is not an (unused) eigenvalue; nearest distance {best}"
        used[bi] = True
    rest = [abs(r) for r, u in zip(ref, used) if not u]
    if not rest or len(vals) == 0:
        return True, None
    mags = [abs(v) for v in vals]
    if which == "LM" and max(rest) > min(mags) + tol:
        return False, f"an eigenvalue of magnitude {max(rest)} was left out while {min(mags)} was returned (LM)"
    if which == "SM" and min(rest) < max(mags) - tol:
        return False, f"an eigenvalue of magnitude {min(rest)} was left out while {max(mags)} was returned (SM)"
    return True, None


def run_case(ctx, case):
    from cola import linalg as L
    node = case["spec"]
    ref = R.dense(node)
    M = ref.M
    n = M.shape[0]
    k, which = min(case["k"], n), case["which"]
    A = B.build(node)
    herm = case["kind"].startswith("herm")
    ctx.begin_case(case, sig=f"{case['kind']}|{R.signature(node)}|k={k}|{which}|{case['alg']}|{case['cap']}|{case['fn']}", nontrivial=True)
    ctx.count("kind", case["kind"])
    ctx.count("alg", case["alg"] + (":" + case["cap"] if case["alg"] in ("Lanczos", "Arnoldi") else ""))
    ctx.count("which_k", f"{which}:{'k=n' if k == n else ('k=1' if k == 1 else '1<k<n')}")
    ref_eigs = np.linalg.eigvalsh(M) if herm else np.linalg.eigvals(M)
    normA = max(np.linalg.norm(M, 2), 1e-300)
    krylov = case["alg"] in ("Lanczos", "Arnoldi")
    if case["fn"] == "eigmax":
        k, which = 1, "LM"
    if case["fn"] == "eigmin":
        k, which = 1, "SM"
    power = case["alg"] == "PowerIteration" or (case["alg"] in (OMIT, "Auto") and k == 1 and which == "LM" and
                                               (case["kind"] in ("herm-definite", "herm-indefinite") or case["kind"].startswith("general")))
    tol = (1e-7 if krylov else 1e-10) * normA * n
    site = case["kind"]
    preds = {"alg": case["alg"], "which": which}
    if case["kind"] == "Triangular":
        preds["lower"] = bool(node["lower"])
    preds["complex"] = ref.dtype.kind == "c"
    if krylov:
        preds["cap"] = case["cap"]
    mags = np.sort(np.abs(ref_eigs))[::-1]
    if power:
        # bounded-progress regime of power iteration: dominance ratio <= 0.8.  The routine stops when two successive Rayleigh
        # quotients differ by less than tol (relative).  That rule implies accuracy only where the quotient converges
        # monotonically (Hermitian definite); with a sub-dominant complex pair (or a sign change of the increments for
        # indefinite spectra) the difference passes through zero and the loop can stop early with an O(1e-3) error - a few per
        # cent of such inputs with the default tol=1e-6 (seen on the thorough tier).  The statement names no accuracy for
        # power iteration, so accuracy is judged (a) with an explicit PowerIteration(tol=1e-13, max_iter=400), where a
        # premature stop above the tolerance has probability < 1e-8 per case and 0.8**400 is far below rounding, and
        # (b) with the default algorithm only on Hermitian definite inputs (monotone => error <= 2 tol).
        if n > 1 and mags[1] / mags[0] > 0.8:
            ctx.note("skipped_power_iteration_weak_dominance")
            return
        if case["alg"] != "PowerIteration" and case["kind"] != "herm-definite" and n > 1:
            ctx.note("default_power_iteration_accuracy_not_judged_nonmonotone_spectrum")
            return
        preds["dominant_negative_or_complex"] = bool(abs(np.angle(ref_eigs[np.argmax(np.abs(ref_eigs))])) > 1e-9)
        tol = 1e-4 * normA
    if case.get("prime") and n > 1:
        # hostile history: the same routine was called just before on a *related* operator of the same shape and dtype
        # (same eigenvectors, other eigenvalues: c I - A, or A^2).  Routines keep no memory of earlier operators.
        M2 = (1.1 * normA * np.eye(n) - M) if case["prime"] == "shifted" else (M @ M) / normA
        A2 = cola.ops.Dense(M2.astype(ref.dtype))
        if herm:
            A2 = cola.SelfAdjoint(A2)
        ctx.count("primed_with", case["prime"])
        if case["fn"] in ("eigmax", "eigmin"):
            ctx.call(getattr(L, case["fn"]), A2, *(() if case["alg"] == OMIT else (make_alg(case, n), )))
        elif case["alg"] == OMIT:
            ctx.call(L.eig, A2, k, which)
        else:
            ctx.call(L.eig, A2, k, which, make_alg(case, n))
        if power:
            ctx.call(L.eigmax, A2)
    if case["fn"] in ("eigmax", "eigmin"):
        alg = () if case["alg"] == OMIT else (make_alg(case, n), )
        if case["alg"] == "PowerIteration" and case["fn"] == "eigmin":
            return
        out = ctx.call(getattr(L, case["fn"]), A, *alg)
        if is_err(out):
            ctx.check(case["fn"], False, site=site, preds=preds, detail={"error": repr(out)})
            return
        v = complex(np.asarray(out))
        target = mags[0] if case["fn"] == "eigmax" else mags[-1]
        okv = any(abs(v - r) <= tol for r in ref_eigs) and abs(abs(v) - target) <= tol
        ctx.check(case["fn"], bool(okv), site=site, preds=preds, detail={"got": v, "spectrum": ref_eigs, "tol": tol})
        return
    if case["alg"] == OMIT:
        out = ctx.call(L.eig, A, k, which) if which != "LM" else ctx.call(L.eig, A, k)
    else:
        alg_obj = make_alg(case, n)
        if case.get("reuse"):
            # the same algorithm object was used before, on a smaller operator (an options object is a value: what it was
            # used for earlier must not matter)
            tiny = cola.SelfAdjoint(cola.ops.Dense(np.diag([1.0, 3.0]).astype(M.dtype)))
            ctx.call(L.eig, tiny, 1, "LM", alg_obj)
            preds["alg_object_reused"] = True
        out = ctx.call(L.eig, A, k, which, alg_obj)
    if is_err(out):
        ctx.check("returns", False, site=site, preds=preds, detail={"error": repr(out)})
        return
    ctx.check("returns", True)
    vals, Vop = out
    vals = np.asarray(vals).astype(complex).reshape(-1)
    V = np.asarray(Vop.to_dense() if hasattr(Vop, "to_dense") else Vop).astype(complex)
    d = {"values": vals, "spectrum": ref_eigs, "k": k, "n": n, "tol": tol}
    ok_count = vals.shape == (k, ) and V.shape == (n, k)
    ctx.check("count", bool(ok_count), site=site, preds=preds, detail=dict(d, vec_shape=list(V.shape)))
    if not ok_count or not np.all(np.isfinite(vals)) or not np.all(np.isfinite(V)):
        if ok_count:
            ctx.check("finite", False, site=site, preds=preds, detail=d)
        return
    norms = np.linalg.norm(V, axis=0)
    ctx.check("vectors-nonzero", bool(np.all(norms > 1e-8)), site=site, preds=preds, detail=dict(d, norms=norms))
    if np.all(norms > 1e-8):
        res = np.linalg.norm(M @ V - V * vals[None, :], axis=0) / norms
        ctx.check("residual", bool(np.all(res <= (1e-2 * normA if power else tol))), site=site, preds=preds, detail=dict(d, residuals=res))
        Vn = V / norms
        smin = np.linalg.svd(Vn, compute_uv=False).min()
        ctx.check("independent", bool(smin > 1e-6), site=site, preds=preds, detail=dict(d, sigma_min=float(smin)))
        if herm and not power:
            G = Vn.conj().T @ Vn
            ctx.check("orthonormal-for-self-adjoint", bool(np.abs(V.conj().T @ V - np.eye(k)).max() <= 1e-6),
                      site=site, preds=preds, detail=dict(d, gram_dev=float(np.abs(V.conj().T @ V - np.eye(k)).max())))
    oks, why = selection_ok(vals, ref_eigs, which, tol)
    ctx.check("selection", bool(oks), site=site, preds=preds, detail=dict(d, why=why))
    rep = set(map(str, getattr(Vop, "annotations", set())))
    ctx.count("vector_annotations", ",".join(sorted(rep)) or "-")
