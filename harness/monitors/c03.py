"""C03 - operator algebra builds the operator of the corresponding matrix expression (DESIGN 4/C03)."""
import numpy as np

import cola
from cola.ops import LinearOperator
from harness import build as B
from harness import payload as P
from harness import refmodel as R
from harness import spec as S
from harness.core import Err, is_err
from harness.probes import DISPATCH
from harness.treecheck import leaf_preds

SIZES = {"quick": 260, "thorough": 5000}
DTMODES = ["f4", "f8", "c8", "c16", "mixed", "mixed_real"]
LEAF_EXCLUDE = ()


# ---- scalars -----------------------------------------------------------------------------------
def gen_scalar(rng, cplx_ok, opdt):
    """JSON description of a scalar: type in {int, float, complex, npscalar, arr0} and value."""
    kinds = ["int", "float", "npscalar", "arr0"] + (["complex", "npcomplex", "arr0complex"] if cplx_ok else [])
    t = S.pick(rng, kinds)
    v = float(S.pick(rng, [-3, -2, -1, 2, 3, 0.5, -0.25, 4, 0]))
    if t == "int":
        v = int(S.pick(rng, [-3, -2, -1, 2, 3, 0]))
    if t in ("complex", "npcomplex", "arr0complex"):
        return {"t": t, "re": v, "im": float(S.pick(rng, [-2, -1, 1, 2])), "dt": opdt}
    return {"t": t, "v": v, "dt": opdt}


def mk_scalar(sc, opdtype=None):
    """NumPy-typed scalars take the precision of the operand they scale (never wider: a wider NumPy scalar on a
    narrower operator is recorded in DESIGN 4.0 as 'not judged')."""
    if opdtype is not None:
        sc = dict(sc, dt=P.code_of(np.dtype(opdtype)) if np.dtype(opdtype).kind in "fc" else "f8")
    t = sc["t"]
    if t == "int":
        return int(sc["v"])
    if t == "float":
        return float(sc["v"])
    if t == "complex":
        return complex(sc["re"], sc["im"])
    real_dt = {"f4": np.float32, "f8": np.float64, "c8": np.float32, "c16": np.float64}[sc["dt"]]
    cplx_dt = {"f4": np.complex64, "f8": np.complex128, "c8": np.complex64, "c16": np.complex128}[sc["dt"]]
    if t == "npscalar":
        return real_dt(sc["v"])
    if t == "arr0":
        return np.array(sc["v"], dtype=real_dt)
    if t == "npcomplex":
        return cplx_dt(complex(sc["re"], sc["im"]))
    if t == "arr0complex":  # a complex scalar handed over as a 0-d array (what xnp.array(c) or a reduction returns)
        return np.array(complex(sc["re"], sc["im"]), dtype=cplx_dt)
    raise ValueError(t)


def is_zero(sc):
    return sc.get("v", 1) == 0 and sc["t"] not in ("complex", "npcomplex", "arr0complex")


# ---- expressions ---------------------------------------------------------------------------------
def invertible_leaf(rng, n, dt):
    r = int(rng.integers(0, 4))
    if r == 0:
        eigs = [float(x) for x in np.linspace(1.0, 3.0, n)]
        return {"k": "Dense", "shape": [n, n], "dt": dt, "seed": S.seed(rng), "gen": "herm", "eigs": eigs}
    if r == 1:
        return {"k": "Diagonal", "n": n, "dt": dt, "seed": S.seed(rng), "nonzero": True}
    if r == 2:
        return {"k": "Triangular", "n": n, "dt": dt, "seed": S.seed(rng), "lower": bool(rng.random() < 0.5),
                "diag": [float(x) for x in rng.choice([1.0, 2.0, -1.0, -2.0], size=n)]}
    return {"k": "ScalarMul", "n": n, "dt": dt, "c": float(S.pick(rng, [2.0, -4.0, 0.5]))}


def gen_expr(rng, depth, o, shape=None, want_op=False):
    if shape is None:
        if rng.random() < 0.5:
            m = n = int(rng.integers(1, o.max_dim + 1))
        else:
            m, n = int(rng.integers(1, o.max_dim + 1)), int(rng.integers(1, o.max_dim + 1))
    else:
        m, n = shape
    if depth <= 0 or rng.random() < 0.1:
        if not want_op and rng.random() < 0.15:
            return {"op": "array", "shape": [m, n], "dt": S.leaf_dt(rng, o), "seed": S.seed(rng)}
        return {"op": "leaf", "spec": S.gen_tree(rng, int(rng.integers(0, 2)), o, (m, n))}
    d = depth - 1
    ops = ["add", "sub", "neg", "smul", "muls", "divs", "matmul", "kron", "block_diag", "sum", "lazify", "densify",
           "no_dispatch"]
    if m == n:
        ops += ["kronsum", "sdiv"]
    for _ in range(10):
        op = S.pick(rng, ops)
        if op in ("add", "sub"):
            a = gen_expr(rng, d, o, (m, n), want_op=True)
            b = gen_expr(rng, d, o, (m, n))
            if rng.random() < 0.5:
                a, b = b, a
            return {"op": op, "args": [a, b]}
        if op == "neg":
            return {"op": "neg", "args": [gen_expr(rng, d, o, (m, n), want_op=True)]}
        if op in ("smul", "muls", "divs"):
            e = gen_expr(rng, d, o, (m, n), want_op=True)
            sc = gen_scalar(rng, cplx_ok=True, opdt=o.dtmode if o.dtmode in P.DT else "f4")
            if op == "divs" and is_zero(sc):
                sc["v"] = 2
            return {"op": op, "c": sc, "args": [e]}
        if op == "sdiv":
            dt = S.leaf_dt(rng, o)
            sc = gen_scalar(rng, cplx_ok=True, opdt=dt)
            return {"op": "sdiv", "c": sc, "args": [{"op": "leaf", "spec": invertible_leaf(rng, n, dt)}]}
        if op == "matmul":
            k = int(rng.integers(1, o.max_dim + 1))
            a = gen_expr(rng, d, o, (m, k), want_op=True)
            b = gen_expr(rng, d, o, (k, n), want_op=want_op)
            if not want_op and rng.random() < 0.3:
                a, b = gen_expr(rng, d, o, (m, k)), gen_expr(rng, d, o, (k, n), want_op=True)
            return {"op": "matmul", "args": [a, b]}
        if op == "kron":
            if m * n == 1:
                continue
            ms, ns = S.factorize(rng, m, 2), S.factorize(rng, n, 2)
            return {"op": "kron", "args": [gen_expr(rng, d, o, (ms[0], ns[0])), gen_expr(rng, d, o, (ms[1], ns[1]))]}
        if op == "kronsum":
            ns = S.factorize(rng, n, 2)
            if 1 in ns:
                continue
            return {"op": "kronsum", "args": [gen_expr(rng, d, o, (ns[0], ns[0])), gen_expr(rng, d, o, (ns[1], ns[1]))]}
        if op == "block_diag":
            b = int(rng.integers(1, 4))
            ms, ns = S.partition(rng, m, [1] * b), S.partition(rng, n, [1] * b)
            if ms is None or ns is None:
                continue
            return {"op": "block_diag", "args": [gen_expr(rng, d, o, (a, c), want_op=True) for a, c in zip(ms, ns)]}
        if op == "sum":
            return {"op": "sum", "args": [gen_expr(rng, d, o, (m, n), want_op=True) for _ in range(int(rng.integers(2, 4)))]}
        if op == "lazify":
            return {"op": "lazify", "args": [gen_expr(rng, d, o, (m, n))]}
        if op == "densify":
            if want_op:
                continue
            return {"op": "densify", "args": [gen_expr(rng, d, o, (m, n))]}
        if op == "no_dispatch":
            return {"op": "no_dispatch", "args": [gen_expr(rng, d, o, (m, n), want_op=True)]}
    return {"op": "leaf", "spec": S.gen_tree(rng, 0, o, (m, n))}


def gen_pattern(rng, o):
    """Directed expressions for the simplifications named in the property (flattening, identity elimination, scalar
    merging, Diagonal (x) Diagonal fusion)."""
    def L(m, n, kinds=None):
        oo = S.Opts(dtmode=o.dtmode, clean=True, max_dim=o.max_dim, kinds=kinds, identity_dt="f4")
        return {"op": "leaf", "spec": S.gen_tree(rng, 0 if kinds else int(rng.integers(0, 2)), oo, (m, n))}

    def sc():
        return gen_scalar(rng, True, o.dtmode if o.dtmode in P.DT else "f4")

    n = int(rng.integers(2, 5))
    p = S.pick(rng, ["kron-diag", "kron-diag3", "sum-flat", "prod-flat", "scalar-merge", "identity", "kron-flat",
                     "kronsum-flat", "scalar-of-scalar", "blockdiag-nested", "scalar-extreme"])
    if p == "scalar-extreme":
        # scalars that are each representable while their product is not, on an operator whose entries compensate
        dt_ = S.pick(rng, ["f4", "c8", "f8", "c16"])
        unit, c1, c2 = S.pick(rng, {"f4": [(1e-15, 1e20, 1e20), (1e30, 1e-25, 1e-25)], "c8": [(1e-15, 1e20, 1e20), (1e30, 1e-25, 1e-25)],
                                    "f8": [(1e-150, 1e200, 1e200), (1e300, 1e-200, 1e-200)], "c16": [(1e-150, 1e200, 1e200), (1e300, 1e-200, 1e-200)]}[dt_])
        leaf = {"op": "leaf", "spec": {"k": S.pick(rng, ["Dense", "Generic"]), "shape": [n, int(rng.integers(1, 5))], "dt": dt_, "seed": S.seed(rng), "unit": unit}}
        f1, f2 = S.pick(rng, [("smul", "smul"), ("muls", "muls"), ("smul", "muls"), ("divs", "divs")])
        if f1 == "divs":
            c1, c2 = 1.0 / c1, 1.0 / c2
        inner = {"op": f1, "c": {"t": "float", "v": c1, "dt": dt_}, "args": [leaf]}
        return {"op": f2, "c": {"t": S.pick(rng, ["float", "npscalar"]), "v": c2, "dt": dt_}, "args": [inner]}
    if p == "blockdiag-nested":
        # block_diag of operands that are block-diagonal themselves, with multiplicities (a flattening rule must keep them)
        def bd():
            k = int(rng.integers(1, 3))
            return {"op": "leaf", "spec": {"k": "BlockDiag", "via": "ctor", "mult": [int(x) for x in rng.integers(1, 4, size=k)],
                                           "args": [L(int(rng.integers(1, 3)), int(rng.integers(1, 3)))["spec"] for _ in range(k)]}}
        args = [bd() if rng.random() < 0.7 else L(int(rng.integers(1, 4)), int(rng.integers(1, 4))) for _ in range(int(rng.integers(2, 4)))]
        args[int(rng.integers(0, len(args)))] = bd()
        return {"op": "block_diag", "args": args}
    if p == "kron-diag":
        a, b = int(rng.integers(2, 5)), int(rng.integers(2, 5))
        return {"op": "kron", "args": [L(a, a, ["Diagonal"]), L(b, b, ["Diagonal"])]}
    if p == "kron-diag3":
        a, b, c = (int(rng.integers(2, 4)) for _ in range(3))
        return {"op": "kron", "args": [{"op": "kron", "args": [L(a, a, ["Diagonal"]), L(b, b, ["Diagonal"])]},
                                       L(c, c, ["Diagonal", "Dense"])]}
    if p == "sum-flat":
        m = int(rng.integers(1, 5))
        s2 = lambda: {"op": "add", "args": [L(m, n), L(m, n)]}  # noqa
        return S.pick(rng, [lambda: {"op": "add", "args": [s2(), s2()]}, lambda: {"op": "add", "args": [L(m, n), s2()]},
                            lambda: {"op": "sub", "args": [s2(), s2()]},
                            lambda: {"op": "add", "args": [{"op": "add", "args": [s2(), L(m, n)]}, s2()]}])()
    if p == "prod-flat":
        d = [int(rng.integers(1, 5)) for _ in range(6)]
        p2 = lambda i: {"op": "matmul", "args": [L(d[i], d[i + 1]), L(d[i + 1], d[i + 2])]}  # noqa
        return S.pick(rng, [lambda: {"op": "matmul", "args": [p2(0), p2(2)]},
                            lambda: {"op": "matmul", "args": [L(d[0], d[1]), p2(1)]},
                            lambda: {"op": "matmul", "args": [p2(0), L(d[2], d[3])]}])()
    if p == "scalar-merge":
        inner = {"op": S.pick(rng, ["smul", "muls", "divs"]), "c": sc(), "args": [L(n, n)]}
        if inner["op"] == "divs" and is_zero(inner["c"]):
            inner["c"]["v"] = 2
        return {"op": S.pick(rng, ["smul", "muls", "neg"]), "c": sc(), "args": [inner]}
    if p == "scalar-of-scalar":
        out = {"op": S.pick(rng, ["smul", "muls", "divs"]), "c": sc(), "args": [L(n, n, ["ScalarMul"])]}
        if out["op"] == "divs" and is_zero(out["c"]):
            out["c"]["v"] = -2
        return out
    if p == "identity":
        m = int(rng.integers(1, 5))
        I1, I2 = L(n, n, ["Identity"]), L(m, m, ["Identity"])
        return S.pick(rng, [lambda: {"op": "matmul", "args": [L(m, n), I1]}, lambda: {"op": "matmul", "args": [I2, L(m, n)]},
                            lambda: {"op": "matmul", "args": [I1, L(n, n, ["Identity"])]},
                            lambda: {"op": "matmul", "args": [{"op": "matmul", "args": [L(m, n), L(n, n)]}, I1]},
                            lambda: {"op": "matmul", "args": [I2, {"op": "matmul", "args": [L(m, n), L(n, m)]}]}])()
    op = "kron" if p == "kron-flat" else "kronsum"
    sq = op == "kronsum"
    f = lambda: L(int(rng.integers(1, 4)) if not sq else (q := int(rng.integers(2, 4))), int(rng.integers(1, 4)) if not sq else q)  # noqa
    k2 = lambda: {"op": op, "args": [f(), f()]}  # noqa
    return S.pick(rng, [lambda: {"op": op, "args": [k2(), f()]}, lambda: {"op": op, "args": [f(), k2()]},
                        lambda: {"op": op, "args": [k2(), k2()]}])()


def gen(tier, rng, shard, nshards):
    n = SIZES[tier]
    for i in range(n):
        dtm = S.pick(rng, DTMODES)
        o = S.Opts(dtmode=dtm, clean=True, max_dim=int(S.pick(rng, [3, 4, 6])), exclude=LEAF_EXCLUDE, identity_dt="f4", routines=0.08)
        if rng.random() < 0.05:
            # directed: operators over *integer-dtype* arrays (as in cola's own docstrings) under scalar multiples and quotients of
            # every scalar type, alone and combined with floating-point operators: the promoted dtype of the dense computation
            m_, n_ = int(rng.integers(1, 4)), int(rng.integers(1, 4))
            il = lambda a=m_, b=n_: {"op": "leaf", "spec": {"k": "Dense", "shape": [a, b], "dt": "f8", "seed": S.seed(rng), "int_dtype": True, "via": S.pick(rng, ["ctor", "fn"])}}  # noqa: E731
            fl = lambda a, b: {"op": "leaf", "spec": {"k": "Dense", "shape": [a, b], "dt": S.pick(rng, ["f4", "f8", "c16"]), "seed": S.seed(rng)}}  # noqa: E731
            sc = S.pick(rng, [{"t": "float", "v": 0.5}, {"t": "float", "v": -2.5}, {"t": "float", "v": 0.25}, {"t": "int", "v": 3}, {"t": "int", "v": -2},
                              {"t": "complex", "re": 0.5, "im": 1.0}, {"t": "npscalar", "v": 0.5}, {"t": "arr0", "v": 0.25}])
            e = {"op": S.pick(rng, ["smul", "muls", "divs", "smul", "muls", "divs", "neg"]), "c": sc, "args": [il()]}
            if e["op"] == "neg":
                e.pop("c")
            outer = S.pick(rng, ["none", "none", "add", "matmul", "kron", "again", "sum-int", "block_diag"])
            if outer == "add":
                e = {"op": S.pick(rng, ["add", "sub"]), "args": [e, fl(m_, n_)] if rng.random() < 0.5 else [fl(m_, n_), e]}
            elif outer == "matmul":
                e = {"op": "matmul", "args": [fl(int(rng.integers(1, 4)), m_), e]}
            elif outer == "kron":
                e = {"op": "kron", "args": [e, il(2, 1)]}
            elif outer == "again":
                e = {"op": S.pick(rng, ["smul", "divs"]), "c": S.pick(rng, [{"t": "float", "v": 0.5}, {"t": "int", "v": 2}]), "args": [e]}
            elif outer == "sum-int":
                e = {"op": "add", "args": [e, il()]}
            elif outer == "block_diag":
                e = {"op": "block_diag", "args": [il(), e]}
            yield {"mode": "expr", "expr": e, "pattern": True}
        elif rng.random() < 0.12:
            yield {"mode": "mismatch", "seed": S.seed(rng), "dtm": dtm}
        elif rng.random() < 0.3:
            yield {"mode": "expr", "expr": gen_pattern(rng, o), "pattern": True}
        else:
            yield {"mode": "expr", "expr": widen_arrays(gen_expr(rng, int(S.pick(rng, [1, 2, 2, 3, 3, 4, 5])), o))}


# ---- two evaluators -------------------------------------------------------------------------------
def ev_cola(e):
    """Evaluate with the public API of cola (operators, overloads, functions)."""
    op = e["op"]
    if op == "leaf":
        return B.build(e["spec"])
    if op == "array":
        return P.operand(e["seed"], e["shape"], e["dt"])
    a = [ev_cola(x) for x in e["args"]]
    if op == "add":
        return a[0] + a[1]
    if op == "sub":
        return a[0] - a[1]
    if op == "neg":
        return -a[0]
    if op == "smul":
        return mk_scalar(e["c"], a[0].dtype) * a[0]
    if op == "muls":
        return a[0] * mk_scalar(e["c"], a[0].dtype)
    if op == "divs":
        return a[0] / mk_scalar(e["c"], a[0].dtype)
    if op == "sdiv":
        return mk_scalar(e["c"], a[0].dtype) / a[0]
    if op == "matmul":
        return a[0] @ a[1]
    if op == "kron":
        return cola.kron(a[0], a[1])
    if op == "kronsum":
        return cola.kronsum(a[0], a[1])
    if op == "block_diag":
        return cola.block_diag(*a)
    if op == "sum":
        return sum(a)
    if op == "lazify":
        return cola.lazify(a[0])
    if op == "densify":
        return cola.densify(a[0])
    if op == "no_dispatch":
        return cola.no_dispatch(a[0])
    raise ValueError(op)


class RefVal:
    """Reference value: wide matrix M, majorant Bd, a 'typed' array T carrying NumPy's dtype semantics, eps, is_op."""
    def __init__(self, M, Bd, T, eps, is_op):
        self.M, self.Bd, self.T, self.eps, self.is_op = M, Bd, T, eps, is_op


def _typed(M, dtype):
    return np.zeros(M.shape, dtype=dtype)


def ev_ref(e):
    op = e["op"]
    if op == "leaf":
        r = R.dense(e["spec"])
        return RefVal(r.M, r.B, _typed(r.M, r.dtype), r.eps, True)
    if op == "array":
        x = P.operand(e["seed"], e["shape"], e["dt"])
        w = R._wide(x)
        return RefVal(w, np.abs(w), _typed(w, x.dtype), R.eps_of(x.dtype), False)
    a = [ev_ref(x) for x in e["args"]]
    eps = max(x.eps for x in a)
    any_op = any(x.is_op for x in a)
    if op in ("add", "sub"):
        s = 1 if op == "add" else -1
        return RefVal(a[0].M + s * a[1].M, a[0].Bd + a[1].Bd, a[0].T + a[1].T, eps, True)
    if op == "neg":
        return RefVal(-a[0].M, a[0].Bd, -a[0].T, eps, True)
    if op in ("smul", "muls", "divs", "sdiv"):
        cdt = getattr(mk_scalar(e["c"], a[0].T.dtype), "dtype", None)
        if cdt is not None and cdt.kind in "fc":
            eps = max(eps, R.eps_of(cdt))
    if op in ("smul", "muls", "divs"):
        c = mk_scalar(e["c"], a[0].T.dtype)
        cw = complex(c) if np.iscomplexobj(c) else float(c)
        if op == "divs":
            return RefVal(a[0].M / cw, a[0].Bd / abs(cw), a[0].T / c, eps, True)
        T = c * a[0].T if op == "smul" else a[0].T * c
        return RefVal(cw * a[0].M, abs(cw) * a[0].Bd, T, eps, True)
    if op == "sdiv":
        c = mk_scalar(e["c"], a[0].T.dtype)
        cw = complex(c) if np.iscomplexobj(c) else float(c)
        Mi = np.linalg.inv(a[0].M)
        cond = np.linalg.cond(a[0].M)
        T = c * np.zeros(a[0].T.shape, a[0].T.dtype)
        return RefVal(cw * Mi, abs(cw) * np.abs(Mi) * max(cond, 1.0) * 4, T, eps, True)
    if op == "matmul":
        return RefVal(a[0].M @ a[1].M, a[0].Bd @ a[1].Bd, a[0].T @ a[1].T, eps, a[0].is_op and a[1].is_op)
    if op == "kron":
        return RefVal(R._kron(a[0].M, a[1].M), R._kron(a[0].Bd, a[1].Bd), np.kron(a[0].T, a[1].T), eps, True)
    if op == "kronsum":
        return RefVal(R._kronsum([x.M for x in a]), R._kronsum([x.Bd for x in a]),
                      _typed(R._kronsum([x.M for x in a]), np.result_type(*[x.T.dtype for x in a])), eps, True)
    if op == "block_diag":
        M = R._blockdiag([x.M for x in a])
        return RefVal(M, R._blockdiag([x.Bd for x in a]), _typed(M, np.result_type(*[x.T.dtype for x in a])), eps, True)
    if op == "sum":
        return RefVal(sum(x.M for x in a), sum(x.Bd for x in a), sum(x.T for x in a), eps, True)
    if op in ("lazify", "no_dispatch"):
        return RefVal(a[0].M, a[0].Bd, a[0].T, eps, True)
    if op == "densify":
        return RefVal(a[0].M, a[0].Bd, a[0].T, eps, False)
    raise ValueError(op)


def subexprs(e):
    for x in e.get("args", []):
        yield from subexprs(x)
    yield e


def judge(e, ctx):
    """-> list of (oracle, ok, detail) for one expression evaluated from scratch."""
    ref = ev_ref(e)
    got = ctx.call(ev_cola, e)
    out = []
    if is_err(got):
        return [("evaluates", False, {"error": repr(got)})]
    out.append(("evaluates", True, None))
    is_op = isinstance(got, LinearOperator)
    out.append(("result-kind", is_op == ref.is_op, {"got_operator": is_op, "want_operator": ref.is_op}))
    if tuple(got.shape) != tuple(ref.M.shape):
        out.append(("shape", False, {"got": list(got.shape), "want": list(ref.M.shape)}))
        return out
    out.append(("shape", True, None))
    gd = np.dtype(got.dtype)
    out.append(("dtype", gd == ref.T.dtype, {"got": str(gd), "want": str(ref.T.dtype)}))
    D = ctx.call(got.to_dense) if is_op else got
    if is_err(D):
        out.append(("value", False, {"error": repr(D)}))
        return out
    D = np.asarray(D)
    eps = max(ref.eps, R.eps_of(D.dtype) if D.dtype.kind in "fc" else 0.0)
    ok, d = R.close(D, ref.M, ref.Bd, ref.T.dtype, eps=eps)
    out.append(("value", ok, d))
    if is_op and ok and ctx.scribble(D, got):
        # the dense matrix handed back is the caller's: after the caller has overwritten it, the operator still densifies to
        # the matrix it represents
        D2 = ctx.call(got.to_dense)
        if is_err(D2):
            out.append(("value-again-after-caller-overwrote-result", False, {"error": repr(D2)}))
        else:
            ok_, d_ = R.close(np.asarray(D2), ref.M, ref.Bd, ref.T.dtype, eps=eps)
            out.append(("value-again-after-caller-overwrote-result", ok_, d_))
    if is_op and ok:
        x = P.operand(7, (ref.M.shape[1], 2), "f8")
        y = ctx.call(lambda: got @ x)
        if is_err(y):
            out.append(("product", False, {"error": repr(y)}))
        else:
            ok2, d2 = R.close(y, ref.M @ x, ref.Bd @ np.abs(x), np.result_type(ref.T.dtype, x.dtype),
                              eps=max(eps, R.eps_of(np.asarray(y).dtype)))
            out.append(("product", ok2, d2))
    return out


def structure_facts(A, ctx):
    """Coverage only: what the simplifier produced (never a verdict)."""
    from cola import ops
    if isinstance(A, ops.Sum):
        ctx.count("structure", "Sum-with-Sum-child" if any(isinstance(M, ops.Sum) for M in A.Ms) else "Sum-flat")
    if isinstance(A, ops.Product):
        ctx.count("structure", "Product-with-Product-child" if any(isinstance(M, ops.Product) for M in A.Ms)
                  else "Product-flat")
        ctx.count("structure", "Product-with-Identity" if any(isinstance(M, ops.Identity) for M in A.Ms)
                  else "Product-no-Identity")
    if isinstance(A, ops.Kronecker):
        ctx.count("structure", "Kronecker-nested" if any(isinstance(M, ops.Kronecker) for M in A.Ms) else "Kronecker-flat")


def run_case(ctx, case):
    DISPATCH.install()
    if case["mode"] == "mismatch":
        return run_mismatch(ctx, case)
    e = case["expr"]
    sig = expr_sig(e)
    ctx.begin_case(case, sig=sig, nontrivial=True)
    for x in subexprs(e):
        ctx.count("op", x["op"])
        if "c" in x:
            ctx.count("scalar", x["c"]["t"] + (":zero" if is_zero(x["c"]) else "") +
                      (":neg" if x["c"].get("v", 1) < 0 else ""))
    before = sum(DISPATCH.rules.values())
    res = judge(e, ctx)
    ctx.note("dispatch_resolutions", sum(DISPATCH.rules.values()) - before)
    got = ctx.call(ev_cola, e)
    if not is_err(got) and isinstance(got, LinearOperator):
        structure_facts(got, ctx)
    for oracle, ok, detail in res:
        if ok:
            ctx.check(oracle, True)
            continue
        # blame: smallest failing sub-expression (children first), same oracle family
        culprit, cd = e, detail
        for x in subexprs(e):
            if x is e:
                break
            rx = judge(x, ctx)
            bad = [(o, d) for o, k, d in rx if not k and (o == oracle or (oracle in ("value", "product") and o in
                                                                           ("value", "product", "evaluates")))]
            if bad:
                culprit, cd = x, bad[0][1]
                break
        site, preds = site_of(culprit, ctx, oracle)
        ctx.check(oracle, False, site=site, preds=preds, detail={"detail": cd, "blamed": brief(culprit)})


def site_of(x, ctx, oracle):
    op = x["op"]
    if op == "leaf":
        return "leaf:" + x["spec"]["k"], leaf_preds(x["spec"])
    preds = {}
    if "c" in x:
        preds["scalar"] = x["c"]["t"]
    kinds = []
    for a in x.get("args", []):
        kinds.append("array" if a["op"] in ("array", "densify") else "operator")
    preds["operands"] = "+".join(sorted(set(kinds)))
    return "expr:" + op, preds


def _has_kind(x, kinds):
    if isinstance(x, dict):
        return x.get("k") in kinds or any(_has_kind(v, kinds) for v in x.values())
    if isinstance(x, list):
        return any(_has_kind(v, kinds) for v in x)
    return False


def widen_arrays(e):
    """Identity / Permutation / FFT products keep the precision of a narrower *array* operand (recorded C01 finding, C01's
    subject): an array multiplied with an expression containing one of them is given the widest dtype, so that the dtype
    of the product is the same with or without that behaviour."""
    if not isinstance(e, dict) or "args" not in e:
        return e
    e["args"] = [widen_arrays(a) for a in e["args"]]
    if e["op"] == "matmul":
        for i, a in enumerate(e["args"]):
            other = e["args"][1 - i] if len(e["args"]) == 2 else None
            if other is None or not _has_kind(other, ("FFT", "Identity", "Permutation")):
                continue
            if a.get("op") == "array":
                a["dt"] = "c16"
            elif a.get("op") == "densify":  # an array of the inner expression's dtype: keep it an operator instead
                e["args"][i] = a["args"][0]
    return e


def brief(x, d=0):
    if x["op"] == "leaf":
        return {"leaf": x["spec"] if R.depth(x["spec"]) == 0 else R.signature(x["spec"])}
    if x["op"] == "array":
        return {"array": x["shape"], "dt": x["dt"]}
    out = {"op": x["op"], "args": [brief(a, d + 1) if d < 2 else "..." for a in x["args"]]}
    if "c" in x:
        out["c"] = x["c"]
    return out


def expr_sig(e):
    if e["op"] == "leaf":
        return "L(" + R.signature(e["spec"]) + ")"
    if e["op"] == "array":
        return f"A{e['shape']}{e['dt']}"
    c = f"[{e['c']['t']}]" if "c" in e else ""
    return e["op"] + c + "(" + ",".join(expr_sig(a) for a in e["args"]) + ")"


# ---- shape-mismatched pairs must be rejected ---------------------------------------------------------------
MISMATCH_FORMS = ["A@B", "A+B", "A-B", "Product", "Sum", "A@arr", "arr@A", "A+arr", "sum", "A@special", "special@A", "A@special", "special@A",
                  "same+", "same+", "same-", "same@"]
# "same*": two square operators of the same structured kind and different sizes, one of them possibly 1 x 1 (a fused rule for the pair --
# diagonals added entrywise, scalars multiplied -- works on the stored arrays, where a size-1 operand broadcasts instead of failing)
SAME_KINDS = ["Diagonal", "Diagonal", "Identity", "ScalarMul", "Dense", "Triangular", "Permutation", "Tridiagonal"]


def run_mismatch(ctx, case):
    rng = P.rng_for("mismatch", case["seed"])
    o = S.Opts(dtmode=case["dtm"], clean=True, max_dim=5)
    form = S.pick(rng, MISMATCH_FORMS)
    m, k, n = (int(rng.integers(1, 6)) for _ in range(3))
    k2 = k + int(S.pick(rng, [-1, 1, 2])) if k > 1 else k + int(S.pick(rng, [1, 2]))
    a = S.gen_tree(rng, int(rng.integers(0, 2)), o, (m, k))
    ctx.begin_case(case, sig=f"mismatch:{form}:{a['k']}", nontrivial=True)
    ctx.count("mismatch_form", form)
    A = B.build(a)
    if form in ("A@B", "Product"):
        b = S.gen_tree(rng, int(rng.integers(0, 2)), o, (k2, n))
        Bop = B.build(b)
        out = ctx.call((lambda: A @ Bop) if form == "A@B" else (lambda: cola.ops.Product(A, Bop)))
        kinds = f"{a['k']},{b['k']}"
    elif form in ("A+B", "A-B", "Sum", "sum"):
        shp = (m, k2) if rng.random() < 0.5 else (m + 1, k)
        b = S.gen_tree(rng, int(rng.integers(0, 2)), o, shp)
        Bop = B.build(b)
        fn = {"A+B": lambda: A + Bop, "A-B": lambda: A - Bop, "Sum": lambda: cola.ops.Sum(A, Bop),
              "sum": lambda: sum([A, Bop])}[form]
        out = ctx.call(fn)
        kinds = f"{a['k']},{b['k']}"
    elif form.startswith("same"):
        sk = S.pick(rng, SAME_KINDS)
        s1 = int(S.pick(rng, [1, 1, 2, 3, 4]))
        s2 = s1 + int(S.pick(rng, [1, 2, 3]))
        if rng.random() < 0.5:
            s1, s2 = s2, s1
        dts = [S.pick(rng, ["f4", "f8", "c16"]) for _ in range(2)]

        def leaf(sz, dt, sd):
            if sk == "Identity":
                return {"k": "Identity", "n": sz, "dt": dt}
            if sk == "ScalarMul":
                return {"k": "ScalarMul", "n": sz, "dt": dt, "c": 2.0 + sd}
            if sk == "Dense":
                return {"k": "Dense", "shape": [sz, sz], "dt": dt, "seed": sd}
            if sk == "Triangular":
                return {"k": "Triangular", "n": sz, "dt": dt, "seed": sd, "lower": True}
            if sk == "Permutation":
                return {"k": "Permutation", "perm": [int(i) for i in np.random.default_rng(sd).permutation(sz)], "dt": dt}
            if sk == "Tridiagonal":
                return {"k": "Tridiagonal", "n": max(sz, 2), "dt": dt, "seed": sd}
            return {"k": "Diagonal", "n": sz, "dt": dt, "seed": sd}
        a, b = leaf(s1, dts[0], 3), leaf(s2, dts[1], 4)
        if sk == "Tridiagonal" and max(s1, 2) == max(s2, 2):
            b = leaf(s2 + 2, dts[1], 4)
        A, Bop = B.build(a), B.build(b)
        fn = {"same+": lambda: A + Bop, "same-": lambda: A - Bop, "same@": lambda: A @ Bop}[form]
        out = ctx.call(fn)
        kinds = f"{sk}{'(1)' if min(s1, s2) == 1 else ''},{sk}"
    elif form in ("A@special", "special@A"):
        # operands that the simplification rules of `@` absorb without building a Product (Identity is dropped, scalars and
        # diagonals are fused): the shape check must happen before that
        sk = S.pick(rng, ["Identity", "ScalarMul", "Diagonal"])
        size = k2 if form == "A@special" else (m + int(S.pick(rng, [1, 2])))
        sp = {"Identity": {"k": "Identity", "n": size, "dt": "f8"}, "ScalarMul": {"k": "ScalarMul", "n": size, "dt": "f8", "c": 2.0},
              "Diagonal": {"k": "Diagonal", "n": size, "dt": "f8", "seed": 3}}[sk]
        if sk == "Diagonal" and rng.random() < 0.5:
            a = {"k": "Diagonal", "n": k if form == "A@special" else m, "dt": "f8", "seed": 4}  # Diagonal @ Diagonal fuses the two diagonals
            A = B.build(a)
        Sop = B.build(sp)
        out = ctx.call((lambda: A @ Sop) if form == "A@special" else (lambda: Sop @ A))
        kinds = f"{a['k']},{sk}" if form == "A@special" else f"{sk},{a['k']}"
    elif form == "A@arr":
        x = P.operand(case["seed"], (k2, 2), "f8")
        out = ctx.call(lambda: A @ x)
        kinds = f"{a['k']},array"
    elif form == "arr@A":
        x = P.operand(case["seed"], (2, m + 1), "f8")
        out = ctx.call(lambda: x @ A)
        kinds = f"array,{a['k']}"
    else:
        x = P.operand(case["seed"], (m, k2), "f8")
        out = ctx.call(lambda: A + x)
        kinds = f"{a['k']},array"
    ctx.count("mismatch_pair", kinds)
    ctx.check("mismatch-rejected", is_err(out), site=f"mismatch:{form}", preds={"left": a["k"]},
              detail={"kinds": kinds, "returned": repr(out)[:200]})
