"""C09 - matrix functions exp/log/sqrt/isqrt/pow/apply_unary equal f of the matrix (DESIGN 4/C09)."""
import numpy as np

import cola
from harness import build as B
from harness import payload as P
from harness import refmodel as R
from harness import spec as S
from harness.core import is_err
from harness.probes import DISPATCH
from harness.treecheck import blame, leaf_preds
from harness.wellcond import lin

SIZES = {"quick": 120, "thorough": 2500}
POWERS = [-2, -1, -1, -1, -0.5, 0, 0.5, 1, 2, 3, 9, 10, 2.5]
FUNCS = ["exp", "log", "sqrt", "isqrt", "pow", "apply_unary"]
USER_F = {"cube+1": lambda x: x**3 + 1, "cos": np.cos}


# ---- operators with controlled spectrum --------------------------------------------------------------------------
def herm_leaf(rng, n, dt, lo=0.5, hi=3.0, declare="PSD", zero=False):
    eigs = lin(lo, hi, n)
    if n > 1 and rng.random() < 0.3:  # repeated eigenvalues: eigenspaces of dimension > 1 that are not aligned with the axes
        eigs = [eigs[int(j)] for j in np.sort(rng.integers(0, max(1, n // 2), size=n))]
    if zero:
        eigs[0] = 0.0
    if declare == "PSD" and rng.random() < 0.25:
        declare = "SelfAdjoint"  # true as well; Auto then takes the general (Eig) path instead of Eigh
    leaf = {"k": S.pick(rng, ["Dense", "Dense", "Generic"]), "shape": [n, n], "dt": dt, "seed": S.seed(rng), "gen": "herm",
            "eigs": eigs}
    return {"k": "Annot", "name": declare, "arg": leaf} if declare else leaf


def general_leaf(rng, n, dt):
    """eigenvalues in the open right half plane, well separated, cond(V) <= ~3."""
    if dt in P.CPLX:
        eigs = [{"re": float(1.0 + 2.0 * i / max(n - 1, 1)), "im": float(S.pick(rng, [-1.0, -0.5, 0.0, 0.5, 1.0]))} for i in range(n)]
    else:
        eigs, i = [], 0
        while i < n:
            re = float(1.0 + 2.0 * i / max(n - 1, 1))
            if i + 1 < n and rng.random() < 0.5:
                im = float(S.pick(rng, [0.5, 1.0]))
                eigs += [{"re": re, "im": im}, {"re": re, "im": -im}]
                i += 2
            else:
                eigs.append({"re": re, "im": 0.0})
                i += 1
    return {"k": "Dense", "shape": [n, n], "dt": dt, "seed": S.seed(rng), "gen": "general", "eigs": eigs, "vcond": 3.0}


def gen_operator(rng, dt, hermitian, fn, depth=1):
    n = int(rng.integers(1, 7))
    zero = fn == "exp" and hermitian and rng.random() < 0.2  # singular PSD for exp
    forms = ["leaf", "leaf", "Diagonal", "BlockDiag", "Identity", "ScalarMul", "Transpose", "Adjoint"]
    if fn == "exp":
        forms += ["KronSum", "KronSum"]
    if fn in ("pow", "sqrt", "isqrt"):
        forms += ["Kronecker", "Kronecker"]
    form = S.pick(rng, forms) if depth > 0 else "leaf"

    def leaf(m=n):
        return herm_leaf(rng, m, dt, zero=zero) if hermitian else general_leaf(rng, m, dt)

    if form == "leaf":
        return leaf()
    if form == "Diagonal":
        if hermitian or dt not in P.CPLX:
            vals = [float(x) for x in rng.choice([0.5, 1.0, 1.5, 2.0, 3.0], size=n)]
            if zero:
                vals[0] = 0.0
        else:
            vals = [{"re": float(x), "im": float(S.pick(rng, [-1.0, 0.0, 1.0]))} for x in rng.choice([0.5, 1.0, 2.0, 3.0], size=n)]
        return {"k": "Diagonal", "n": n, "dt": dt, "vals": vals}
    if form == "Identity":
        return {"k": "Identity", "n": n, "dt": dt}
    if form == "ScalarMul":
        c = float(S.pick(rng, [0.5, 2.0, 3.0]))
        if not hermitian and dt in P.CPLX:
            c = S.pick(rng, [c, {"re": 1.0, "im": 1.0}])
        return {"k": "ScalarMul", "n": n, "dt": dt, "c": c}
    if form == "BlockDiag":
        b = int(rng.integers(1, 4))

        def block():
            r = rng.random()
            if r < 0.6:
                return gen_operator(rng, dt, hermitian, fn, 0)
            if r < 0.8:
                # a block that is itself block diagonal, with different leaf blocks (repeated by the outer multiplicity)
                return {"k": "BlockDiag", "via": "ctor", "mult": [int(rng.integers(1, 3)) for _ in range(2)],
                        "args": [leaf(int(rng.integers(1, 3))), leaf(int(rng.integers(1, 4)))]}
            return gen_operator(rng, dt, hermitian, fn, depth - 1)
        return {"k": "BlockDiag", "via": "ctor", "mult": [int(rng.integers(1, 3)) for _ in range(b)], "args": [block() for _ in range(b)]}
    if form in ("Transpose", "Adjoint"):
        return {"k": form, "via": S.pick(rng, ["ctor", "fn"]), "arg": gen_operator(rng, dt, hermitian, fn, depth - 1)}
    if form in ("KronSum", "Kronecker"):
        nf = int(rng.integers(2, 4))
        return {"k": form, "via": S.pick(rng, ["ctor", "fn"]),
                "args": [herm_leaf(rng, int(rng.integers(1, 4)), dt, 0.7, 1.8, zero=False) if hermitian else general_leaf(rng, int(rng.integers(1, 4)), dt)
                         for _ in range(nf)]}
    raise ValueError(form)


def redeclare_psd(node):
    if not isinstance(node, dict):
        return node
    out = {k: ([redeclare_psd(c) for c in v] if k == "args" else (redeclare_psd(v) if k == "arg" else v)) for k, v in node.items()}
    if out.get("k") == "Annot" and out.get("name") == "SelfAdjoint":
        out["name"] = "PSD"
    return out


def gen(tier, rng, shard, nshards):
    for i in range(SIZES[tier]):
        dt = S.pick(rng, ["f8", "f8", "c16", "c16", "f4"])
        hermitian = rng.random() < 0.55
        fn = S.pick(rng, FUNCS)
        node = gen_operator(rng, dt, hermitian, fn)
        directed = rng.random() < 0.08
        if directed:
            # singular positive semi-definite with repeated eigenvalues and a Krylov algorithm: the Krylov space is exhausted
            # after two or three steps and the genuine zero eigenvalue sits next to the zero padding of the projected matrix
            fn, hermitian = "exp", True
            n_ = int(rng.integers(3, 7))
            vals = sorted(float(x) for x in rng.choice([0.5, 4.0 / 3.0, 2.0], size=2, replace=False))
            node = {"k": "Annot", "name": "PSD", "arg": {"k": "Dense", "shape": [n_, n_], "dt": dt if dt != "f4" else "f8", "seed": S.seed(rng), "gen": "herm",
                                                        "eigs": [0.0] + [vals[int(j)] for j in np.sort(rng.integers(0, 2, size=n_ - 1))]}}
        if hermitian and node["k"] in ("Transpose", "Adjoint", "KronSum", "Kronecker", "BlockDiag"):
            # cola may forget an annotation on the way (A.H of a declared Dense is a fresh Dense): the Hermitian
            # composite is declared at the top, truthfully, so that Eigh/Lanczos are admissible
            node = {"k": "Annot", "name": "PSD", "arg": node}
        indefinite = (not directed) and rng.random() < 0.08
        if indefinite:
            # Hermitian *indefinite* operators (declared SelfAdjoint, truthfully) for the functions defined on the whole real line:
            # exp, entire user functions, integer powers
            hermitian = True
            fn = S.pick(rng, ["exp", "apply_unary", "pow", "pow"])
            n_ = int(rng.integers(2, 7))
            eigs = [float(x) for x in np.linspace(-2.0, 2.5, n_)]
            node = {"k": "Annot", "name": "SelfAdjoint", "arg": {"k": S.pick(rng, ["Dense", "Dense", "Generic"]), "shape": [n_, n_], "dt": dt if dt != "f4" else "f8",
                                                                 "seed": S.seed(rng), "gen": "herm", "eigs": eigs}}
        scaled = (not directed) and (not indefinite) and rng.random() < 0.12
        if scaled:
            # a lazily scaled operator c * B whose factor B alone is *outside* the function's domain (negative definite, or rotated
            # out of the right half plane) while c * B is inside: f(c B) is not f(c) f(B) on the principal branch
            fn = S.pick(rng, ["sqrt", "isqrt", "pow", "pow", "log", "exp", "apply_unary"])
            n_ = int(rng.integers(1, 7))
            dts = dt if dt != "f4" else "f8"
            if rng.random() < 0.5 or dts not in P.CPLX:
                hermitian = True
                c = float(S.pick(rng, [-1.0, -1.0, -2.5, -0.5, -1e-3]))
                eigs = [float(x) / abs(c) for x in np.linspace(-3.0, -0.5, n_)]
                inner = {"k": "Annot", "name": "SelfAdjoint", "arg": {"k": S.pick(rng, ["Dense", "Dense", "Generic"]), "shape": [n_, n_], "dt": dts,
                                                                      "seed": S.seed(rng), "gen": "herm", "eigs": eigs}}
                node = {"k": "Scaled", "c": c, "side": S.pick(rng, ["l", "r"]), "arg": inner}
                if rng.random() < 0.6:
                    node = {"k": "Annot", "name": "PSD", "arg": node}
            else:
                hermitian = False
                th = float(S.pick(rng, [0.6, -0.6, 0.9, -0.9, 1.0])) * np.pi
                cc = complex(float(S.pick(rng, [0.5, 1.0, 2.0])) * np.exp(1j * th))
                g = general_leaf(rng, n_, dts)
                g["eigs"] = [{"re": float((complex(e["re"], e["im"]) / cc).real), "im": float((complex(e["re"], e["im"]) / cc).imag)} for e in g["eigs"]]
                node = {"k": "Scaled", "c": {"re": cc.real, "im": cc.imag}, "side": S.pick(rng, ["l", "r"]), "arg": g}
        gramprod = (not directed) and (not indefinite) and (not scaled) and rng.random() < 0.07
        if gramprod:
            # a product that merely *starts* (or ends) with a Gram pair X^T X of one matrix-free / composite operator object and is
            # not symmetric: X^T X D with D diagonal positive (similar to D^1/2 X^T X D^1/2: real positive spectrum, well-conditioned
            # eigenvectors), (X^T X)(Y^T Y).  The automatic choice reads the annotations of the whole product.
            hermitian = False
            dts = dt if dt != "f4" else "f8"
            n_ = int(rng.integers(2, 6))
            def X_():
                x = {"k": S.pick(rng, ["Generic", "Generic", "Dense"]), "shape": [n_ + int(rng.integers(0, 3)), n_], "dt": dts, "seed": S.seed(rng), "gen": "svals",
                     "svals": [float(t) for t in np.linspace(1.0, 1.6, n_)]}
                return {"k": "Sum", "via": "ctor", "args": [x, dict(x, seed=S.seed(rng))]} if rng.random() < 0.3 else x
            Dn = {"k": "Diagonal", "n": n_, "dt": dts, "vals": [float(t) for t in rng.choice([0.5, 1.0, 1.5, 2.0], size=n_)]}
            form = S.pick(rng, ["TA", "HA"]) if dts in P.CPLX else S.pick(rng, ["TA", "HA"])
            if dts in P.CPLX:
                form = "HA"  # (X^T X is not Hermitian for complex X)
            if rng.random() < 0.7:
                node = {"k": "Gram", "form": form, "same": True, "via": S.pick(rng, ["fn", "ctor"]), "arg": X_(), "tail": [Dn]}
            else:
                node = {"k": "Product", "via": "fn", "args": [{"k": "Gram", "form": form, "same": True, "via": "fn", "arg": X_()},
                                                               {"k": "Gram", "form": form, "same": True, "via": "fn", "arg": X_()}]}
            fn = S.pick(rng, ["exp", "log", "sqrt", "isqrt", "pow", "apply_unary"])
        n = R.shape_of(node)[0]
        if hermitian:
            alg = S.pick(rng, ["omitted", "Auto", "Eigh", "Eig", "Lanczos", "Lanczos", "Arnoldi"])
            if scaled and node["k"] != "Annot":
                alg = S.pick(rng, ["omitted", "Auto", "Eig", "Arnoldi"])
            if indefinite:
                alg = S.pick(rng, ["Eigh", "Eigh", "Eig", "omitted", "Auto", "Lanczos", "Arnoldi"])
            if directed:
                alg = S.pick(rng, ["Arnoldi", "Arnoldi", "Lanczos"])
        else:
            alg = S.pick(rng, ["omitted", "Auto", "Eig", "Eig", "Arnoldi", "Arnoldi"])
            if gramprod:
                alg = S.pick(rng, ["omitted", "Auto", "omitted", "Auto", "Eig", "Arnoldi"])
        iters = S.pick(rng, ["n", "n+3", "default"])
        case = {"spec": node, "fn": fn, "alg": alg, "iters": iters, "cols": int(S.pick(rng, [0, 1, 3, -1])), "seed": S.seed(rng),
                "hermitian": hermitian}
        if scaled:
            case["scaled"] = True
        if fn == "pow":
            case["a"] = S.pick(rng, POWERS) if not indefinite else S.pick(rng, [2, 3, 10, -2, 9])
            if scaled:
                case["a"] = S.pick(rng, [0.5, -0.5, 2.5, 1.5, 0.5, 3, -2])
            if case["a"] == -1:
                # power -1 is delegated to inv(): Lanczos -> CG and Eigh -> Cholesky, which refuse operators that are not
                # *declared* PSD.  The matrices here are positive definite: declare them so (admissible algorithm object).
                case["spec"] = redeclare_psd(node)
        if fn == "apply_unary":
            case["f"] = S.pick(rng, list(USER_F))
        yield case


def make_alg(case, n):
    from cola.linalg import Arnoldi, Auto, Eig, Eigh, Lanczos
    name = case["alg"]
    if name == "omitted":
        return ()
    kw = {} if case["iters"] == "default" else {"max_iters": n if case["iters"] == "n" else n + 3}
    return ({"Auto": Auto(), "Eigh": Eigh(), "Eig": Eig(), "Lanczos": Lanczos(tol=1e-13, **kw), "Arnoldi": Arnoldi(tol=1e-13, **kw)}[name], )


def scalar_f(case):
    fn = case["fn"]
    if fn == "exp":
        return np.exp
    if fn == "log":
        return np.log
    if fn == "sqrt":
        return np.sqrt
    if fn == "isqrt":
        return lambda x: 1 / np.sqrt(x)
    if fn == "pow":
        a = case["a"]
        return lambda x: np.power(x, a)
    return USER_F[case["f"]]


def _fscale(f, w):
    """max |f(l)| over the spectrum, and never less than the sensitivity |l f'(l)| of f to a relative perturbation of an
    eigenvalue (log 1 = 0 exactly, yet a rounding of the eigenvalue 1 moves it by eps: the error scale cannot be zero)"""
    w = w.astype(complex)
    fw = f(w)
    with np.errstate(all="ignore"):
        sens = np.abs(f(w * (1 + 1e-6)) - fw) / 1e-6
    sens = sens[np.isfinite(sens)]
    return fw, float(max(np.abs(fw[np.isfinite(fw)]).max(initial=0.0), sens.max(initial=0.0)))


def reference(M, case, hermitian):
    f = scalar_f(case)
    if hermitian:
        w, V = np.linalg.eigh((M + M.conj().T) / 2)
        fw, fmax = _fscale(f, w)
        return (V * fw) @ V.conj().T, 1.0, fmax
    w, V = np.linalg.eig(M)
    fw, fmax = _fscale(f, w)
    return (V * fw) @ np.linalg.inv(V), float(np.linalg.cond(V)), fmax


def apply(ctx, A, case, n):
    from cola import linalg as L
    alg = make_alg(case, n)
    fn = case["fn"]
    if fn == "pow":
        return ctx.call(L.pow, A, case["a"], *alg)
    if fn == "apply_unary":
        return ctx.call(L.apply_unary, USER_F[case["f"]], A, *alg)
    return ctx.call(getattr(L, fn), A, *alg)


def evaluate(ctx, node, case):
    ref = R.dense(node)
    n = ref.M.shape[0]
    herm = "SelfAdjoint" in R.truth(ref.M, 1e-9)
    F, condV, fmax = reference(ref.M, case, herm)
    A = B.build(node)
    out = []
    Fop = apply(ctx, A, case, n)
    if is_err(Fop):
        return [("returns", False, {"error": repr(Fop)})]
    out.append(("returns", True, None))
    krylov = case["alg"] in ("Lanczos", "Arnoldi")
    eps = max(ref.eps, 1e-9 if krylov else 0.0)
    shape = (n, ) if case["cols"] == 0 else (n, (n if n <= 6 else 3) if case["cols"] == -1 else case["cols"])  # (-1: a square block of operands)
    vdt = P.code_of(ref.dtype)
    if vdt in ("f4", "f8") and case["seed"] % 5 == 1:
        vdt = {"f4": "c8", "f8": "c16"}[vdt]  # a complex operand for a real operator: f(A) (u + i w) = f(A) u + i f(A) w
    v = P.operand(case["seed"], shape, vdt, "normal")
    if ref.eps < 1e-10 and case["seed"] % 3 == 0:
        # f(A) is linear: operands of tiny / huge norm (each column is judged relative to its own norm)
        v = v * (np.resize(np.array([1e-17, 1.0, 1e13]), v.shape[1]) if v.ndim == 2 else [1e-13, 1e-17, 1e13][case["seed"] % 9 // 3])
        v = np.asarray(v).astype(P.DT[vdt])
    elif v.ndim == 2 and v.shape[1] > 1:
        v = v * np.resize(np.array([1e-6, 1.0, 1e6]), v.shape[1]).astype(v.dtype)  # very different column norms
    if v.ndim == 2 and v.shape[1] > 1 and case["seed"] % 4 == 0:
        v[:, 1] = 0  # a zero column: f(A) 0 = 0 (even where f(0) is infinite)
    vw = R._wide(v)
    want = F @ vw
    got = ctx.call(lambda: Fop @ v)
    scale = 2e3 * eps * max(condV, 1.0) * max(fmax, 1e-300) * n

    def colerr(g, w_, ref_v):
        g, w_, ref_v = np.asarray(g), np.asarray(w_), np.asarray(ref_v)
        if g.shape != w_.shape or not np.all(np.isfinite(g)):
            return np.inf
        if g.ndim == 1:
            return float(np.linalg.norm(g - w_) / max(np.linalg.norm(ref_v), 1e-300))
        return float(np.max(np.linalg.norm(g - w_, axis=0) / np.maximum(np.linalg.norm(ref_v, axis=0), 1e-300)))

    if is_err(got):
        out.append(("action", False, {"error": repr(got)}))
        return out
    if v.ndim == 2 and v.shape[1] > 1 and case["seed"] % 4 == 0:
        g = np.asarray(got)
        out.append(("zero-column-maps-to-zero", bool(g.shape == want.shape and np.all(np.isfinite(g)) and np.all(g[:, 1] == 0)),
                    {"column": np.asarray(g)[:, 1] if g.ndim == 2 else None}))
    e = colerr(got, want, vw)
    out.append(("action", bool(e <= scale), {"rel_err_vs_|v|": e, "bound": scale, "condV": condV, "fmax": fmax, "n": n}))
    if e <= scale and case["seed"] % 4 == 0 and not (case["alg"] in ("Lanczos", "Arnoldi") and (case["iters"] == "default" or n > 8)):
        from harness.reuse import reuse_checks
        v_other = P.operand(case["seed"] + 23, v.shape, vdt, "normal")
        reuse_checks(ctx, lambda: apply(ctx, A, case, n), v, v_other, "f(A)", {"fn": case["fn"], "alg": case["alg"]}, rel_tol=1e-7)
    # algebraic consequences named in the property
    if case["fn"] == "sqrt":
        twice = ctx.call(lambda: Fop @ (Fop @ v))
        if not is_err(twice):
            e2 = colerr(twice, ref.M @ vw, vw)
            out.append(("sqrt-twice-is-A", bool(e2 <= scale * max(fmax, 1.0) * 10), {"rel_err": e2}))
    if case["fn"] == "pow" and case["a"] == -1:
        e3 = colerr(got, np.linalg.solve(ref.M, vw), vw)
        out.append(("pow-1-is-inverse", bool(e3 <= scale * 10), {"rel_err": e3}))
    if case["fn"] == "pow" and float(case["a"]).is_integer() and case["a"] >= 0:
        w = vw
        for _ in range(int(case["a"])):
            w = ref.M @ w
        e4 = colerr(got, w, vw)
        out.append(("integer-power-is-repeated-product", bool(e4 <= scale * 10), {"rel_err": e4}))
    return out


def run_case(ctx, case):
    DISPATCH.install()
    node = case["spec"]
    ref = R.dense(node)
    n = ref.M.shape[0]
    if case["alg"] in ("Lanczos", "Arnoldi", "Eigh", "Eig", "Auto") and ref.eps > 1e-10 and case["alg"] in ("Lanczos", "Arnoldi"):
        ctx.note("skipped_single_precision_krylov")
        return
    ctx.begin_case(case, sig=R.signature(node) + f"|{case['fn']}|{case.get('a')}|{case.get('f')}|{case['alg']}|{case['iters']}|{case['cols']}",
                   nontrivial=True)
    for k in set(R.kinds(node)):
        ctx.count("kind", k)
    ctx.count("fn", case["fn"] + (f"({case['a']})" if "a" in case else ""))
    if case.get("scaled"):
        ctx.count("scaled_factor_outside_domain", case["fn"] + (f"({case['a']})" if "a" in case else "") + (":hermitian" if case["hermitian"] else ":general"))
    ctx.count("alg", f"{case['alg']}:{case['iters']}" if case["alg"] in ("Lanczos", "Arnoldi") else case["alg"])
    before = dict(DISPATCH.rules)
    results = evaluate(ctx, node, case)
    for rid, c in DISPATCH.rules.items():
        if rid.split("(")[0] in ("apply_unary", "exp", "log", "pow", "sqrt", "isqrt") and c > before.get(rid, 0):
            ctx.count("unary_rule", rid)
    for oracle, ok, detail in results:
        if ok:
            ctx.check(oracle, True)
            continue

        def fails(nd):
            s_ = R.shape_of(nd)
            if s_[0] != s_[1]:
                return False
            if case["alg"] in ("Eigh", "Lanczos") and nd["k"] not in ("Annot", "Diagonal", "Identity", "ScalarMul", "BlockDiag",
                                                                       "Transpose", "Adjoint", "KronSum", "Kronecker"):
                return False
            return not all(k_ for _, k_, _ in evaluate(ctx, nd, case))

        culprit = blame(node, fails)
        preds = leaf_preds(culprit)
        preds.update({"fn": case["fn"], "alg": case["alg"]})
        if "a" in case:
            preds["a"] = case["a"]
        if case["alg"] in ("Lanczos", "Arnoldi"):
            preds["iters"] = case["iters"]
        cm = R.dense(culprit).M
        preds["singular"] = bool(np.linalg.matrix_rank(cm) < cm.shape[0])
        ctx.check(oracle, False, site=culprit["k"], preds=preds,
                  detail={"detail": detail, "blamed": culprit if R.depth(culprit) <= 1 else R.signature(culprit)})
