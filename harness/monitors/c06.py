"""C06 - inv / solve return the solution of the linear system on every dispatch path (DESIGN 4/C06)."""
import numpy as np

import cola
from harness import build as B
from harness import payload as P
from harness import refmodel as R
from harness import spec as S
from harness import wellcond as W
from harness.core import is_err
from harness.probes import DISPATCH
from harness.treecheck import leaf_preds

SIZES = {"quick": 110, "thorough": 2500}
COND_MAX = 300.0


def gen(tier, rng, shard, nshards):
    n_cases = SIZES[tier]
    big = {"quick": {0: ("psd", 1001), 1: ("psd", 999), 2: ("gen", 999), 3: ("gen", 1001)},
           "thorough": {0: ("psd", 1001), 1: ("psd", 999), 2: ("gen", 999), 3: ("gen", 1001), 4: ("psd", 1001), 5: ("gen", 999)}}[tier]
    if shard in big:
        kind, n = big[shard]
        yield {"mode": "big", "psd": kind == "psd", "n": n, "seed": S.seed(rng), "cols": int(S.pick(rng, [0, 2]))}
    for i in range(n_cases):
        dt = S.pick(rng, ["f8", "f8", "c16", "f4", "c8"])
        psd = rng.random() < 0.4
        node = W.gen_invertible(rng, int(S.pick(rng, [0, 1, 1, 2, 2])), dt, None, psd)
        if psd:
            # cola does not infer PSD through every combinator (e.g. kron() fuses two Diagonals into a fresh Diagonal):
            # the positive definite tree is declared PSD at the top, truthfully
            if node["k"] != "Annot":
                node = {"k": "Annot", "name": "PSD", "arg": node}
            alg = S.pick(rng, ["omitted", "Auto", "Cholesky", "CG", "CG", "CG-P", "LU", "GMRES"])
        else:
            alg = S.pick(rng, ["omitted", "Auto", "LU", "LU", "GMRES"])
        tol = float(S.pick(rng, [1e-4, 1e-6, 1e-8, 1e-10])) if dt in ("f8", "c16") else float(S.pick(rng, [1e-3, 1e-4]))
        if dt in ("f8", "c16") and rng.random() < 0.25:
            u_ = float(S.pick(rng, [1e-9, 1e9, 1e-25, 1e25]))
            node = rescale_units(node, u_)  # the solution does not depend on the unit of the operator
            if u_ in (1e-25, 1e25) and alg == "CG-P":
                # (CG guards its divisions with an absolute 1e-40; a preconditioner in units of its own on an operator in extreme
                # units takes p^H A p below it while the residual still falls: outside the regime of the guard, see C12)
                alg = "CG"
        yield {"mode": "tree", "spec": node, "alg": alg, "tol": tol, "cols": int(S.pick(rng, [0, 1, 3, -1])),
               "bdt": S.pick(rng, [dt] * 8 + ["f8", "c16"]) if dt in ("f8", "c16") else dt, "seed": S.seed(rng), "psd": psd}


def rescale_units(node, s):
    """The same tree with every Dense / Generic leaf given by its spectrum expressed in other units (only when the tree has no
    other numeric leaves: the conditioning of the whole must not change)."""
    ok = [True]

    def rec(nd):
        if not isinstance(nd, dict):
            return nd
        out = {k: ([rec(c) for c in v] if k == "args" else (rec(v) if k == "arg" else v)) for k, v in nd.items()}
        if "args" not in out and "arg" not in out:
            if out.get("k") in ("Dense", "Generic") and ("eigs" in out or "svals" in out):
                for key in ("eigs", "svals"):
                    if key in out:
                        out[key] = [({"re": e["re"] * s, "im": e["im"] * s} if isinstance(e, dict) else e * s) for e in out[key]]
            else:
                ok[0] = False
        elif out.get("k") in ("Kronecker", "Scaled", "Product", "Sliced"):
            ok[0] = False  # (products of scales / views: keep those in ordinary units)
        return out
    scaled = rec(node)
    return scaled if ok[0] else node


def make_alg(name, tol, n, single=False, M=None, seed=0):
    from cola.linalg import CG, GMRES, LU, Auto, Cholesky
    if name == "CG-P":
        # a Hermitian positive definite preconditioner in units of its own: the requested tolerance is on the residual of the
        # system, whatever the preconditioner does to the iteration
        pk = ["jacobi", "scaled-identity-small", "scaled-identity-large", "inverse-of-neighbour"][seed % 4]
        dtp = M.dtype
        if pk == "jacobi":
            Pop = cola.ops.Diagonal((1.0 / np.real(np.diag(M))).astype(dtp))
        elif pk.startswith("scaled"):
            Pop = cola.ops.ScalarMul(1e-6 if pk.endswith("small") else 1e6, M.shape, dtype=dtp)
        else:
            Hm = (M + M.conj().T) / 2
            Pop = cola.ops.Dense(np.linalg.inv(Hm + 0.1 * np.linalg.norm(Hm, 2) * np.eye(n)).astype(dtp))
        return (CG(tol=tol, max_iters=20 * n + 50, P=cola.PSD(Pop)), )
    if name == "omitted":
        return ()
    if name == "Auto":
        return (Auto(), )
    if name == "LU":
        return (LU(), )
    if name == "Cholesky":
        return (Cholesky(), )
    if name == "CG":
        return (CG(tol=tol, max_iters=20 * n + 50), )
    if name == "GMRES":
        # single precision: exactly n iterations and a tolerance above the rounding level (with max_iters > n the
        # zero-padding heuristic of gmres is decided by rounding noise in float32; that regime belongs to C13)
        if single:
            return (GMRES(tol=1e-4, max_iters=n), )
        return (GMRES(tol=min(tol, 1e-8) if tol < 1e-5 else 1e-5, max_iters=n + 2), )
    raise ValueError(name)


def is_iterative(op, depth=0):
    from cola.linalg.algorithm_base import IterativeOperatorWInfo
    if isinstance(op, IterativeOperatorWInfo):
        return True
    if depth > 6:
        return False
    kids = list(getattr(op, "Ms", ()) or ())
    if isinstance(getattr(op, "A", None), cola.ops.LinearOperator):
        kids.append(op.A)
    return any(isinstance(M, cola.ops.LinearOperator) and is_iterative(M, depth + 1) for M in kids)


def bounds(case, ref, cond, iterative, alg):
    """Relative forward-error bound for this path (the requested tolerance through the solver's own stopping rule)."""
    eps = max(ref.eps, R.eps_of(P.DT[case["bdt"]]))
    direct = 2e3 * eps * cond * max(ref.M.shape[0], 4)
    if not iterative:
        return direct
    if alg in ("CG", "CG-P"):
        # stops when ||r||/||b|| <= tol*(1+||r0||/||b||) = 2 tol (x0 = 0); forward error <= cond * relative residual
        return 20 * case["tol"] * cond + direct
    # GMRES run to the full dimension: normal equations square the small problem's conditioning
    gt = (min(case["tol"], 1e-8) if case["tol"] < 1e-5 else 1e-5) if eps < 1e-10 else 1e-4
    return 2e3 * eps * cond * cond * ref.M.shape[0] + 100 * gt * cond


def solve_checks(ctx, node, case, collect):
    """Evaluate all sub-oracles on one (sub-)expression; collect(oracle, ok, detail)."""
    from cola import linalg as L
    ref = R.dense(node)
    n = ref.M.shape[0]
    cond = float(np.linalg.cond(ref.M))
    A = B.build(node)
    top = node
    while top["k"] == "Annot":
        top = top["arg"]
    if case["alg"] == "CG-P" and top["k"] in ("Product", "Kronecker", "BlockDiag", "Diagonal", "ScalarMul", "Identity", "Permutation",
                                               "Triangular", "Scaled", "Transpose", "Adjoint"):
        # (a structural rule hands the algorithm object on to the factors / blocks, whose sizes a preconditioner made for the
        # whole operator does not have: the preconditioned solver is only an admissible request where CG runs on the whole)
        case = dict(case, alg="CG")
    alg = make_alg(case["alg"], case["tol"], n, single=ref.eps > 1e-10, M=ref.M.astype(ref.dtype), seed=case["seed"])
    if case["alg"] == "CG-P":
        ctx.count("preconditioner", ["jacobi", "scaled-identity-small", "scaled-identity-large", "inverse-of-neighbour"][case["seed"] % 4])
    if case["cols"] == -1:
        case = dict(case, cols=n if n <= 8 else 3)  # a square right-hand-side block: as many columns as the operator has rows
    shape = (n, ) if case["cols"] == 0 else (n, case["cols"])
    b = P.operand(case["seed"], shape, case["bdt"], "normal")
    if b.ndim == 2 and b.shape[1] == 3 and case["seed"] % 2 == 0:
        # heterogeneous columns: the solution is judged column by column (a block-wide norm hides a tiny column that an
        # iterative solver stopped iterating on too early)
        b = (b * np.array([1e-6, 1.0, 1e6])[None, :]).astype(b.dtype)
        if case["alg"] in ("CG", "CG-P", "GMRES", "Auto", "omitted") and n > 1:
            # ... and the large column is an eigenvector (an iterative solver is done with it after one step, long before the
            # tiny generic column has converged)
            w, V = np.linalg.eig(ref.M.astype(complex))
            ev = V[:, int(np.argmax(np.abs(w)))]
            ev = ev.real if (b.dtype.kind != "c" and np.abs(ev.imag).max() < 1e-12) else ev
            if b.dtype.kind == "c" or not np.iscomplexobj(ev):
                b[:, 2] = (1e6 * ev / max(np.linalg.norm(ev), 1e-300)).astype(b.dtype)
    bw = R._wide(b)
    xs = np.linalg.solve(ref.M, bw)
    if case["alg"] in ("CG", "CG-P", "GMRES") and case["seed"] % 3 != 1:
        # hostile history on the *same operator object*: a deliberately loose request of the same algorithm class first (one
        # step, tolerance 0.3), through inv and through solve; what the strict request returns afterwards must not depend on it
        from cola.linalg import CG, GMRES
        loose = CG(tol=0.3, max_iters=1) if case["alg"] != "GMRES" else GMRES(tol=0.3, max_iters=1)
        l1 = ctx.call(lambda: L.inv(A, loose) @ b)
        l2 = ctx.call(L.solve, A, b, loose)
        ctx.count("history", "loose-request-first" + (":err" if is_err(l1) or is_err(l2) else ""))
    rules0 = dict(DISPATCH.rules)
    Ainv = ctx.call(L.inv, A, *alg)
    inv_rules = sorted(r for r, c in DISPATCH.rules.items() if r.startswith("inv(") and c > rules0.get(r, 0))
    if is_err(Ainv):
        collect("inv-returns", False, {"error": repr(Ainv)})
        return
    collect("inv-returns", True, None)
    iterative = is_iterative(Ainv)
    ctx.count("path", ("iterative:" if iterative else "direct:") + case["alg"])
    bound = bounds(case, ref, cond, iterative, case["alg"])

    def rel(x, want):
        x, want = np.asarray(x), np.asarray(want)
        if x.ndim == 2 and x.shape == want.shape and x.shape == bw.shape:  # right-hand-side blocks: worst column
            return float(np.max(np.linalg.norm(x - want, axis=0) / np.maximum(np.linalg.norm(want, axis=0), 1e-300)))
        return float(np.linalg.norm(x - want) / max(np.linalg.norm(want), 1e-300))

    x = ctx.call(lambda: Ainv @ b)
    if is_err(x):
        collect("inv-product", False, {"error": repr(x)})
    else:
        x = np.asarray(x)
        ok = x.shape == xs.shape and np.all(np.isfinite(x)) and rel(x, xs) <= bound
        res = float(np.linalg.norm(ref.M @ x - bw) / max(np.linalg.norm(bw), 1e-300)) if x.shape == xs.shape else None
        collect("inv-product", bool(ok), {"rel_err": rel(x, xs) if x.shape == xs.shape else None, "bound": bound,
                                          "rel_residual": res, "cond": cond, "shape": list(x.shape)})
    if not is_err(x) and b.ndim >= 1:
        from harness.reuse import reuse_checks
        b_other = P.operand(case["seed"] + 17, b.shape, case["bdt"], "normal")
        reuse_checks(ctx, lambda: L.inv(A, *alg), b if case["seed"] % 2 else b.reshape(n, -1), b_other if case["seed"] % 2 else b_other.reshape(n, -1),
                     "inv", {"alg": case["alg"], "iterative": iterative}, rel_tol=max(1e-6, 100 * case["tol"]) if iterative else 1e-9)
    rules1 = dict(DISPATCH.rules)
    x2 = ctx.call(L.solve, A, b, *alg)
    solve_rules = sorted(r for r, c in DISPATCH.rules.items() if r.startswith("inv(") and c > rules1.get(r, 0))
    if not is_err(x2) and DISPATCH._installed:
        # solve(A, b, alg) is inv(A, alg) @ b: it must resolve to the same inverse rules as inv(A, alg) did (dispatch tap),
        # i.e. honour the algorithm object it was given
        collect("solve-uses-the-requested-algorithm", solve_rules == inv_rules, {"inv_rules": inv_rules, "solve_rules": solve_rules})
    if is_err(x2):
        collect("solve", False, {"error": repr(x2)})
    else:
        x2 = np.asarray(x2)
        ok = x2.shape == xs.shape and np.all(np.isfinite(x2)) and rel(x2, xs) <= bound
        collect("solve", bool(ok), {"rel_err": rel(x2, xs) if x2.shape == xs.shape else None, "bound": bound, "cond": cond})
    Minv = np.linalg.inv(ref.M)
    D = ctx.call(Ainv.to_dense)
    if is_err(D):
        collect("inv-dense", False, {"error": repr(D)})
    else:
        D = np.asarray(D)
        ok = D.shape == Minv.shape and np.all(np.isfinite(D)) and rel(D, Minv) <= bound
        collect("inv-dense", bool(ok), {"rel_err": rel(D, Minv) if D.shape == Minv.shape else None, "bound": bound})
    if tuple(Ainv.shape) != (n, n):
        collect("inv-shape", False, {"got": list(Ainv.shape)})
    else:
        collect("inv-shape", True, None)
    if not iterative:
        T = ctx.call(lambda: Ainv.T.to_dense())
        if is_err(T):
            collect("inv-transpose", False, {"error": repr(T)})
        else:
            collect("inv-transpose", bool(np.asarray(T).shape == Minv.shape and rel(T, Minv.T) <= bound),
                    {"rel_err": rel(T, Minv.T) if np.asarray(T).shape == Minv.shape else None, "bound": bound})
        H = ctx.call(lambda: Ainv.H.to_dense())
        if is_err(H):
            collect("inv-adjoint", False, {"error": repr(H)})
        else:
            collect("inv-adjoint", bool(np.asarray(H).shape == Minv.shape and rel(H, Minv.conj().T) <= bound),
                    {"rel_err": rel(H, Minv.conj().T) if np.asarray(H).shape == Minv.shape else None, "bound": bound})
        lb = P.operand(case["seed"] + 5, (n, ) if case["cols"] == 0 else (case["cols"], n), case["bdt"], "normal")
        y = ctx.call(lambda: lb @ Ainv)
        want = R._wide(lb) @ Minv
        if is_err(y):
            collect("inv-left-product", False, {"error": repr(y)})
        else:
            collect("inv-left-product", bool(np.asarray(y).shape == want.shape and rel(y, want) <= bound),
                    {"rel_err": rel(y, want) if np.asarray(y).shape == want.shape else None, "bound": bound})


def run_case(ctx, case):
    DISPATCH.install()
    if case["mode"] == "big":
        return run_big(ctx, case)
    node = case["spec"]
    ref = R.dense(node)
    cond = float(np.linalg.cond(ref.M)) if ref.M.size else 1.0
    if not np.isfinite(cond) or cond > COND_MAX:
        ctx.note("skipped_out_of_regime_cond")
        return
    ctx.begin_case(case, sig=R.signature(node) + f"|{case['alg']}|{case['cols']}|{case['bdt']}|{case['tol']}", nontrivial=True)
    for k in set(R.kinds(node)):
        ctx.count("kind", k)
    ctx.count("alg", case["alg"])
    before = dict(DISPATCH.rules)
    results = []
    solve_checks(ctx, node, case, lambda o, ok, d: results.append((o, ok, d)))
    for rid, c in DISPATCH.rules.items():
        if rid.startswith("inv(") and c > before.get(rid, 0):
            ctx.count("inv_rule", rid)
    for oracle, ok, detail in results:
        if ok:
            ctx.check(oracle, True)
            continue
        # blame: smallest square sub-expression on which any oracle of the family fails with the same algorithm
        culprit = node

        def fails(nd):
            s = R.shape_of(nd)
            if s[0] != s[1]:
                return False
            if case["alg"] in ("CG", "CG-P", "Cholesky") and "PSD" not in R.truth(R.dense(nd).M, 1e-9):
                return False
            out = []
            solve_checks(ctx, nd, case, lambda o, k, d: out.append(k))
            return not all(out)

        from harness.treecheck import blame
        culprit = blame(node, fails)
        preds = leaf_preds(culprit)
        preds["alg"] = case["alg"]
        preds["rhs_wider_than_operator"] = bool(np.result_type(R.dense(node).dtype, P.DT[case["bdt"]]) != R.dense(node).dtype)
        preds["complex"] = R.dense(culprit).dtype.kind == "c"
        if culprit["k"] == "Annot":
            preds["declared"] = culprit["name"]
            preds["inner"] = culprit["arg"]["k"]
        ctx.check(oracle, False, site=culprit["k"], preds=preds,
                  detail={"detail": detail, "blamed": culprit if R.depth(culprit) <= 1 else R.signature(culprit)})


def run_big(ctx, case):
    """Both sides of the automatic small/large switch at 10^6 entries."""
    from cola import linalg as L
    n, psd = case["n"], case["psd"]
    rng = np.random.default_rng(case["seed"])
    ctx.begin_case(case, sig=f"big:{n}:{psd}:{case['cols']}", nontrivial=True)
    ctx.count("auto_switch", f"n={n} psd={psd}")
    G = rng.standard_normal((n, n)) / np.sqrt(n)
    M = (G + G.T) / 2 * 0.5 + 3 * np.eye(n) if psd else 0.3 * G + 3 * np.eye(n)
    A = cola.ops.Dense(M)
    if psd:
        A = cola.PSD(A)
    b = rng.standard_normal((n, ) if case["cols"] == 0 else (n, case["cols"]))
    before = dict(DISPATCH.rules)
    x = ctx.call(lambda: L.inv(A) @ b)
    sel = sorted(r for r, c in DISPATCH.rules.items() if r.startswith("inv(") and c > before.get(r, 0))
    ctx.count("auto_path", f"n={n} psd={psd}: " + ";".join(sel))
    if is_err(x):
        ctx.check("auto-switch-solve", False, site="inv-auto", preds={"n>1000": n > 1000, "psd": psd}, detail=repr(x))
        return
    res = float(np.linalg.norm(M @ x - b) / np.linalg.norm(b))
    # large side: default tolerances of CG/GMRES (1e-6) through their stopping rules; small side: direct
    bound = 1e-4 if n * n > 1e6 else 1e-10
    ctx.check("auto-switch-solve", bool(np.all(np.isfinite(x)) and res <= bound), site="inv-auto",
              preds={"n>1000": n > 1000, "psd": psd}, detail={"rel_residual": res, "bound": bound, "rules": sel})
