"""C05 - reported structural annotations are true of the represented matrix (DESIGN 4/C05)."""
import numpy as np

import cola
from cola import ops
from harness import build as B
from harness import payload as P
from harness import refmodel as R
from harness import spec as S
from harness.core import is_err
from harness.probes import array_hash

SIZES = {"quick": 330, "thorough": 6000}
NAMES = {"SelfAdjoint": cola.SelfAdjoint, "PSD": cola.PSD, "Unitary": cola.Unitary, "Stiefel": cola.Stiefel}
IMPLIES = {"PSD": {"PSD", "SelfAdjoint"}, "SelfAdjoint": {"SelfAdjoint"}, "Unitary": {"Unitary", "Stiefel"},
           "Stiefel": {"Stiefel"}}


def reported(A):
    out = set()
    for a in A.annotations:
        for name, cls in NAMES.items():
            if issubclass(a, cls):
                out.add(name)
    return out


def tol_for(dtype, eps=None):
    return 2e3 * max(R.eps_of(dtype), eps or 0.0)


# ---- creation tap: every operator constructed during a case (quiescent-point invariant) -----------------------
class CreationTap:
    def __init__(self):
        self.created = []
        self.installed = False
        self.on = False

    def install(self):
        if self.installed:
            return
        from cola.annotations import WrapMeta
        from cola.ops.operator_base import LinearOperator
        tap = self
        orig_init = LinearOperator.__init__
        orig_call = WrapMeta.__call__

        def init(self_, *a, **k):
            orig_init(self_, *a, **k)
            if tap.on:
                tap.created.append(self_)

        def call(cls, obj):
            out = orig_call(cls, obj)
            if tap.on:
                tap.created.append(out)
            return out

        LinearOperator.__init__ = init
        WrapMeta.__call__ = call
        self.installed = True


TAP = CreationTap()


# ---- generators ---------------------------------------------------------------------------------------------
def true_leaf(rng, n, dt, name=None, m=None):
    """A leaf that really has property `name` and is declared so (or an undeclared generic leaf)."""
    if name is None:
        name = S.pick(rng, ["SelfAdjoint", "PSD", "Unitary", "Stiefel", None, "builtin"])
    if name == "builtin" and rng.random() < 0.25:
        # rarely used kinds with annotations of their own (or none): reflectors with real and complex beta, tridiagonal operators
        if rng.random() < 0.7:
            beta = S.pick(rng, [2.0, 2.0, 1.0, 0.5] + ([{"re": 1.0, "im": 1.0}, {"re": 1.0, "im": -1.0}, {"re": 2.0, "im": 0.0}] if dt in P.CPLX else []))
            return {"k": "Householder", "n": n, "dt": dt, "seed": S.seed(rng), "unit": True, "beta": beta}
        return {"k": "Tridiagonal", "n": max(n, 2), "dt": dt, "seed": S.seed(rng), "dominant": True, "sym": bool(rng.random() < 0.5)} if n >= 2 else {"k": "Identity", "n": n, "dt": dt}
    if name == "builtin":
        k = S.pick(rng, ["Identity", "Permutation", "FFT", "Hessian", "Diagonal", "ScalarMul"])
        o = S.Opts(dtmode=dt, scalar_pool=[2.0, -1.5, 1.0, 3] + ([{"re": 0.0, "im": 1.0}] if dt in P.CPLX else []))
        return S._leaf(rng, k, n, n, o)
    if name in (None, "plain"):
        return {"k": S.pick(rng, ["Dense", "Generic"]), "shape": [m or n, n], "dt": dt, "seed": S.seed(rng)}
    if name == "Stiefel":
        mm = m or n + int(rng.integers(0, 3))
        return {"k": "Annot", "name": "Stiefel",
                "arg": {"k": "Dense", "shape": [mm, n], "dt": dt, "seed": S.seed(rng), "gen": "orth"}}
    g = {"SelfAdjoint": "herm", "PSD": "psd_int", "Unitary": "orth"}[name]
    kind = S.pick(rng, ["Dense", "Dense", "Generic"])
    return {"k": "Annot", "name": name, "arg": {"k": kind, "shape": [n, n], "dt": dt, "seed": S.seed(rng), "gen": g}}


def scalar_pool(rng, dt):
    pool = [2.0, 0.5, -1.0, -2.5, 1.0, 3, -1]
    if dt in P.CPLX or rng.random() < 0.3:
        pool += [{"re": 0.0, "im": 1.0}, {"re": 1.0, "im": 1.0}, {"re": 0.0, "im": -2.0}]
    return S.pick(rng, pool)


def gram_extras(rng, node, dt, free):
    """Sometimes surround the Gram pair with further factors: X^H X B, H X^H X, H X X^H B (a product that merely contains
    a Gram pair is in general not even Hermitian)."""
    if not node.get("same", True) and rng.random() < 0.6:
        # the second member is an operator of the same kind, dtype and declarations over *other* data (E^T F): same types as a
        # Gram pair built earlier in the process, but neither Hermitian nor positive semi-definite
        other = R.reseed(node["arg"])
        if other is not None:
            node["other"] = other
    if rng.random() < 0.55:
        return node
    p = R.shape_of(node)[0]
    where = S.pick(rng, ["tail", "tail", "head", "both"])

    def factor(side):
        name = S.pick(rng, ["plain", "plain", "SelfAdjoint", "PSD", "Unitary"])
        if free and name == "plain" and rng.random() < 0.3:  # non-square outer factor
            q = p + int(rng.integers(1, 3))
            return true_leaf(rng, q, dt, "plain", m=p) if side == "tail" else true_leaf(rng, p, dt, "plain", m=q)
        return true_leaf(rng, p, dt, name)
    if where in ("tail", "both"):
        node["tail"] = [factor("tail") for _ in range(int(rng.integers(1, 3)))][:1 if free else 2]
    if where in ("head", "both"):
        node["head"] = [factor("head")]
    node["via"] = S.pick(rng, ["fn", "fn", "ctor"])
    node["assoc"] = S.pick(rng, ["left", "pair-first"])
    return node


def gen_annot_tree(rng, depth, dt, shape=None):
    n = shape[1] if shape else int(rng.integers(1, 6))
    m = shape[0] if shape else n
    if depth <= 0:
        if m == n and shape is not None:
            return true_leaf(rng, n, dt, S.pick(rng, ["SelfAdjoint", "PSD", "Unitary", "plain", "builtin"]))
        if m != n:
            return true_leaf(rng, n, dt, name=S.pick(rng, ["Stiefel", "plain"]) if m > n else "plain", m=m)
        return true_leaf(rng, n, dt)
    free = shape is None
    pool = ["Scaled", "Sum", "Transpose", "Adjoint"] + (["Product", "Gram", "Sliced", "Symm"] if m == n else []) + \
        (["Kronecker", "BlockDiag", "Product", "Gram", "KronSum"] if free else [])
    k = S.pick(rng, pool)
    d = depth - 1
    if k == "Scaled":
        return {"k": "Scaled", "c": scalar_pool(rng, dt), "side": S.pick(rng, ["l", "r"]),
                "arg": gen_annot_tree(rng, d, dt, None if free else (m, n))}
    if k == "Sum":
        name = S.pick(rng, ["SelfAdjoint", "PSD", "Unitary", "plain"]) if m == n else "plain"
        args = [true_leaf(rng, n, dt, name, m=(None if name != "plain" else m)) if rng.random() < 0.7 else gen_annot_tree(rng, d, dt, (m, n))
                for _ in range(2)]
        return {"k": "Sum", "via": S.pick(rng, ["ctor", "fn"]), "args": args}
    if k == "Product":
        name = S.pick(rng, ["SelfAdjoint", "PSD", "Unitary", "plain"] + (["Stiefel"] if free else []))
        if name == "Stiefel":
            p = n + int(rng.integers(0, 3))
            args = [true_leaf(rng, p, dt, "Stiefel", m=p + int(rng.integers(0, 2))), true_leaf(rng, n, dt, "Stiefel", m=p)]
        else:
            args = [true_leaf(rng, n, dt, name), true_leaf(rng, n, dt, name)]
            if rng.random() < 0.3:
                c = scalar_pool(rng, dt)
                if isinstance(c, dict) and dt not in P.CPLX:
                    c = -2.0
                args.insert(int(rng.integers(0, 3)), {"k": "ScalarMul", "n": n, "dt": dt, "c": c})
        return {"k": "Product", "via": S.pick(rng, ["ctor", "fn"]), "args": args}
    if k == "Symm":
        # symmetrised sums of one operator object and a view of itself: A + A^T is symmetric, Hermitian only for real data;
        # A + A^H is Hermitian
        inner = S.pick(rng, [lambda: true_leaf(rng, n, dt, "plain"), lambda: gen_annot_tree(rng, d, dt, (n, n)),
                             lambda: {"k": "Product", "via": "ctor", "args": [true_leaf(rng, n, dt, "plain"), true_leaf(rng, n, dt, "plain")]}])()
        return {"k": "Symm", "form": S.pick(rng, ["T", "T", "H"]), "order": int(rng.integers(0, 2)), "view": S.pick(rng, ["ctor", "fn"]),
                "via": S.pick(rng, ["ctor", "fn"]), "arg": inner}
    if k == "Gram":
        mm = n + int(rng.integers(0, 3))
        if not free:  # result must be n x n: use the A^T A / A^H A forms of an mm x n factor, or a square factor
            inner = S.pick(rng, [lambda: true_leaf(rng, n, dt, "plain", m=mm), lambda: true_leaf(rng, n, dt, "Stiefel", m=mm),
                                 lambda: true_leaf(rng, n, dt, "Unitary")])()
            return gram_extras(rng, {"k": "Gram", "form": S.pick(rng, ["TA", "HA"]), "same": bool(rng.random() < 0.7), "arg": inner}, dt, False)
        inner = S.pick(rng, [lambda: true_leaf(rng, n, dt, "plain", m=mm), lambda: true_leaf(rng, n, dt, "Stiefel", m=mm),
                             lambda: true_leaf(rng, n, dt, "Unitary"), lambda: gen_annot_tree(rng, 0, dt, (n, n))])()
        return gram_extras(rng, {"k": "Gram", "form": S.pick(rng, ["TA", "HA", "AT", "AH"]), "same": bool(rng.random() < 0.7), "arg": inner}, dt, True)
    if k in ("Kronecker", "BlockDiag", "KronSum"):
        name = S.pick(rng, ["SelfAdjoint", "PSD", "Unitary", "Stiefel", "plain", "mixed"] if k != "KronSum" else ["SelfAdjoint", "PSD", "Unitary", "Unitary", "builtin", "mixed"])
        args = []
        for _ in range(int(rng.integers(2, 4))):
            nn = int(rng.integers(1, 4))
            nm = S.pick(rng, ["SelfAdjoint", "PSD", "Unitary"]) if name == "mixed" else name
            args.append(true_leaf(rng, nn, dt, nm) if rng.random() < 0.8 else gen_annot_tree(rng, d, dt, (nn, nn)))
        node = {"k": k, "via": "ctor" if k != "KronSum" else S.pick(rng, ["ctor", "fn"]), "args": args}
        if k == "BlockDiag" and rng.random() < 0.5:
            node["mult"] = [int(rng.integers(1, 3)) for _ in args]
        return node
    if k == "Sliced":
        N = n + int(rng.integers(0, 3))
        inner = true_leaf(rng, N, dt, S.pick(rng, ["SelfAdjoint", "PSD", "Unitary"]))
        if free and N >= 3 and rng.random() < 0.2:  # near-miss: same stop and step, different start (a non-square block)
            a, b = (int(x) for x in rng.choice(np.arange(0, N - 1), size=2, replace=False))
            sl = [{"s": [a, N, None]}, {"s": [b, N, None]}]
        elif rng.random() < 0.15:
            # near-miss: two different blocks of the same length far from the corner (both starts beyond the block length: a
            # comparison of slices normalised against the wrong length would see them as equal)
            N = 3 * n + int(rng.integers(1, 3))
            inner = true_leaf(rng, N, dt, S.pick(rng, ["SelfAdjoint", "PSD", "Unitary"]))
            a = int(rng.integers(n, N - n + 1))
            b = int(S.pick(rng, [x for x in range(n, N - n + 1) if x != a] or [a - 1]))
            sl = [{"s": [a, a + n, None]}, {"s": [b, b + n, None]}]
        elif rng.random() < 0.6:  # equal index sets
            s = S.slice_for(rng, N, n, unique=True)
            sl = [s, dict(s)]
        elif rng.random() < 0.5 and N > n:  # near-miss: same length, shifted by one / permuted
            st = int(rng.integers(0, N - n))
            if rng.random() < 0.5:
                sl = [{"s": [st, st + n, None]}, {"s": [st + 1, st + 1 + n, None]}]
            else:
                idx = [int(i) for i in rng.permutation(N)[:n]]
                idx2 = idx[1:] + idx[:1] if n > 1 else [(idx[0] + 1) % N]
                sl = [{"i": idx}, {"i": idx2}]
        else:
            sl = [S.slice_for(rng, N, n, unique=True), S.slice_for(rng, N, n, unique=True)]
        return {"k": "Sliced", "via": S.pick(rng, ["ctor", "fn"]), "slices": sl, "arg": inner}
    if k in ("Transpose", "Adjoint"):
        return {"k": k, "via": S.pick(rng, ["ctor", "fn"]), "arg": gen_annot_tree(rng, d, dt, None if free else (n, m))}
    return gen_annot_tree(rng, d, dt, (m, n))


ROUTINES = ["lanczos", "arnoldi", "eig", "svd", "unary", "inv_unitary", "wrapper"]


def gen(tier, rng, shard, nshards):
    n = SIZES[tier]
    for i in range(n):
        dt = S.pick(rng, ["f8", "f8", "c16", "c16", "f4", "c8"])
        if rng.random() < 0.7:
            yield {"mode": "tree", "spec": gen_annot_tree(rng, int(S.pick(rng, [1, 1, 2, 2, 3])), dt)}
        else:
            yield {"mode": "routine", "routine": S.pick(rng, ROUTINES), "dt": dt, "seed": S.seed(rng)}


# ---- judging -------------------------------------------------------------------------------------------------
def false_annotations(A, M, tol):
    rep = reported(A)
    tr = R.truth(M, tol)
    return sorted(x for x in rep if x not in tr), rep, tr


def node_preds(node):
    k = node["k"]
    p = {}
    if k == "Scaled":
        c = P.as_scalar(node["c"])
        p["scalar"] = "complex" if isinstance(c, complex) else ("negative" if c < 0 else ("unit" if abs(c) == 1 else "positive-nonunit"))
    if k == "Product":
        scs = [P.as_scalar(a["c"]) for a in node["args"] if a["k"] == "ScalarMul"]
        p["has_scalar_factor"] = bool(scs)
        if scs:
            c = scs[0]
            p["scalar"] = "complex" if isinstance(c, complex) else ("negative" if c < 0 else ("unit" if abs(c) == 1 else "positive-nonunit"))
    if k == "Gram":
        p["form"] = node["form"]
        p["same_object"] = node.get("same", True)
        p["extra_factors"] = "+".join(x for x in ("head", "tail") if node.get(x)) or "none"
    if k == "Sliced":
        p["equal_slices"] = node["slices"][0] == node["slices"][1]
    if k == "Symm":
        p["form"] = node["form"]
    if k in ("Transpose", "Adjoint", "Gram", "Annot"):
        s = R.shape_of(node["arg"])
        p["arg_square"] = s[0] == s[1]
    return p


def judge_tree(ctx, node, top=True):
    """-> list of (false annotation, culprit node).  Children first: blame the smallest sub-expression."""
    out = []
    for c in R.children(node):
        out += judge_tree(ctx, c, top=False)
    if out:
        return out
    ref = R.dense(node)
    A = ctx.call(B.build, node)
    if is_err(A):
        return [("<build failed: %s>" % A.type, node)] if top else []
    bad, rep, tr = false_annotations(A, ref.M, tol_for(ref.dtype, ref.eps))
    return [(b, node) for b in bad]


def run_case(ctx, case):
    TAP.install()
    if case["mode"] == "routine":
        return run_routine(ctx, case)
    node = case["spec"]
    ctx.begin_case(case, sig=R.signature(node), nontrivial=True)
    for k in set(R.kinds(node)):
        ctx.count("kind", k)
    TAP.created.clear()
    TAP.on = True
    try:
        ref = R.dense(node)
        owned = []
        A = ctx.call(B.build, node, owned)
    finally:
        TAP.on = False
    if is_err(A):
        ctx.check("builds", False, site=A.where or "?", preds={"type": A.type}, detail={"error": repr(A), "spec": node})
        return
    ctx.check("builds", True)
    rep = reported(A)
    for r in rep:
        ctx.count("reported", r)
    ctx.count("reported_n", len(rep))
    bad, rep, tr = false_annotations(A, ref.M, tol_for(ref.dtype, ref.eps))
    if not bad:
        ctx.check("annotation-true", True)
    else:
        res = judge_tree(ctx, node)
        for name, culprit in (res or [(b, node) for b in bad]):
            preds = node_preds(culprit)
            preds["false"] = name
            preds["complex"] = R.dense(culprit).dtype.kind == "c"
            # (the complex-scalar sub-case of the recorded scalar-multiple finding was repaired in /repo (4a5b5ff): a complex
            # scalar must no longer leave SelfAdjoint / PSD on the multiple; the recorded finding only covers the rest)
            preds["repaired_subcase"] = bool(preds.get("scalar") == "complex" and name in ("SelfAdjoint", "PSD"))
            ctx.check("annotation-true", False, site=culprit["k"], preds=preds,
                      detail={"blamed": culprit if R.depth(culprit) <= 1 else R.signature(culprit), "reported": sorted(rep),
                              "true": sorted(tr)})
    # isa() agrees with the annotation set
    ok = all(A.isa(NAMES[x]) for x in rep) and all((not A.isa(NAMES[x])) for x in NAMES if x not in closure(rep))
    ctx.check("isa-consistent", ok, site=node["k"], detail={"reported": sorted(rep)})
    # declaration wrappers: same action, argument untouched
    if node["k"] == "Annot":
        inner = B.build(node["arg"])
        before_ann = set(inner.annotations)
        leaves_before = [array_hash(x) for x in inner.flatten()[0] if isinstance(x, np.ndarray)]
        W = NAMES[node["name"]](inner)
        D0, D1 = np.asarray(inner.to_dense()), np.asarray(W.to_dense())
        same = D0.shape == D1.shape and np.array_equal(D0, D1) and W.shape == inner.shape and \
            np.dtype(W.dtype) == np.dtype(inner.dtype)
        ctx.check("wrapper-same-action", bool(same), site="Annot", preds={"declared": node["name"]},
                  detail={"kind": node["arg"]["k"]})
        untouched = set(inner.annotations) == before_ann and \
            leaves_before == [array_hash(x) for x in inner.flatten()[0] if isinstance(x, np.ndarray)] and W is not inner
        ctx.check("wrapper-leaves-argument-alone", bool(untouched), site="Annot", preds={"declared": node["name"]},
                  detail={"before": sorted(map(str, before_ann)), "after": sorted(map(str, inner.annotations))})
    # when the tree oracle already blamed a sub-expression, operators built on top of it inherit the false annotation:
    # the creation-tap failures are then consequences of the same fingerprint and are not reported a second time
    quiescent(ctx, "tree", suppress=bool(bad))


def closure(rep):
    out = set()
    for r in rep:
        out |= IMPLIES[r]
    return out


def quiescent(ctx, origin, suppress=False):
    """Every operator created during the case, densified by cola itself, must satisfy its own annotations."""
    if suppress:
        ctx.note("quiescent_suppressed_after_tree_failure")
        TAP.created.clear()
        return
    seen = set()
    for op in TAP.created:
        if id(op) in seen:
            continue
        seen.add(id(op))
        try:
            rep = reported(op)
            if not rep or max(op.shape) > 40 or _iterative(op):
                continue
            D = np.asarray(op.to_dense())
            if D.ndim != 2 or not np.all(np.isfinite(D)):
                ctx.note("quiescent_skipped_nonfinite_or_batched")
                continue
        except Exception:  # noqa  internal operator that cannot be densified: not judged
            ctx.note("quiescent_skipped_undensifiable")
            continue
        tr = R.truth(D.astype(np.complex128 if np.iscomplexobj(D) else np.float64), tol_for(D.dtype if D.dtype.kind in "fc" else np.float64))
        bad = sorted(x for x in rep if x not in tr)
        square = op.shape[0] == op.shape[1]
        preds = {"false": ",".join(bad), "square": square, "origin": origin}
        preds["scalar_factor"] = _has_scaled_product(op)
        preds["repaired_subcase"] = bool(_has_scaled_product(op, complex_only=True) and any(x in ("SelfAdjoint", "PSD") for x in bad))
        ctx.check("created-operator-annotation-true", not bad, site=type(op).__name__.split("[")[0], preds=preds,
                  detail={"type": type(op).__name__, "shape": list(op.shape), "reported": sorted(rep), "true": sorted(tr)})
    TAP.created.clear()


def _has_scaled_product(op, depth=0, complex_only=False):
    """Does the operator contain (within 4 levels) a Product with a ScalarMul factor?  (open finding: such products
    inherit the other factor's annotations whatever the scalar).  complex_only: ... whose scalar has a non-zero imaginary part."""
    if isinstance(op, ops.Product) and any(isinstance(M, ops.ScalarMul) and (not complex_only or abs(complex(np.asarray(M.c)).imag) > 0) for M in op.Ms):
        return True
    if depth > 4:
        return False
    kids = list(getattr(op, "Ms", ()) or ())
    if isinstance(getattr(op, "A", None), ops.LinearOperator):
        kids.append(op.A)
    return any(isinstance(M, ops.LinearOperator) and _has_scaled_product(M, depth + 1, complex_only) for M in kids)


def _iterative(op, depth=0):
    from cola.linalg.algorithm_base import IterativeOperatorWInfo
    if isinstance(op, IterativeOperatorWInfo) or type(op).__name__.startswith(("LanczosUnary", "ArnoldiUnary")):
        return True
    if depth > 4:
        return False
    for attr in ("Ms", ):
        for M in getattr(op, attr, ()) or ():
            if isinstance(M, ops.LinearOperator) and _iterative(M, depth + 1):
                return True
    inner = getattr(op, "A", None)
    return isinstance(inner, ops.LinearOperator) and _iterative(inner, depth + 1)


# ---- routine outputs ---------------------------------------------------------------------------------------------
def herm(rng, n, dt, definite):
    lo = 1.0 if definite else -2.0
    eigs = [float(x) for x in np.linspace(lo, 3.0, n)]
    return {"k": "Dense", "shape": [n, n], "dt": dt, "seed": S.seed(rng), "gen": "herm", "eigs": eigs}


def judge_output(ctx, what, Op, preds, dense=None):
    """An operator returned by a routine: its own dense matrix must have the properties it reports."""
    rep = reported(Op)
    for r in rep:
        ctx.count("routine_reported", f"{what}:{r}")
    if not rep:
        ctx.check("routine-output-annotation-true", True)
        return
    D = np.asarray(Op.to_dense()) if dense is None else dense
    if not np.all(np.isfinite(D)):
        ctx.note("routine_output_nonfinite")
        return
    wide = D.astype(np.complex128 if np.iscomplexobj(D) else np.float64)
    tr = R.truth(wide, 1e-5 if np.dtype(D.dtype).itemsize // (2 if D.dtype.kind == "c" else 1) == 8 else 5e-3)
    bad = sorted(x for x in rep if x not in tr)
    p = dict(preds)
    p["false"] = ",".join(bad)
    p["square"] = Op.shape[0] == Op.shape[1]
    ctx.check("routine-output-annotation-true", not bad, site=what, preds=p,
              detail={"shape": list(Op.shape), "reported": sorted(rep), "true": sorted(tr)})


def run_routine(ctx, case):
    from cola import linalg as L
    from cola.linalg.decompositions.arnoldi import arnoldi
    from cola.linalg.decompositions.lanczos import lanczos
    from cola.linalg.svd.svd import DenseSVD, svd
    rng = P.rng_for("c05", case["seed"])
    dt, r = case["dt"], case["routine"]
    if dt in ("f4", "c8"):
        dt = {"f4": "f8", "c8": "c16"}[dt]  # Krylov outputs are judged in double precision only
    n = int(rng.integers(2, 9))
    ctx.begin_case(case, sig=f"{r}:{dt}:{n}:{case['seed'] % 97}", nontrivial=True)
    ctx.count("routine", r)
    TAP.created.clear()
    TAP.on = True
    try:
        if r == "lanczos":
            A = cola.SelfAdjoint(B.build(herm(rng, n, dt, False)))
            k = int(rng.integers(1, n + 2))
            v = P.operand(case["seed"], (n, ), dt, "normal")
            Q, T, _ = lanczos(A, v, max_iters=k, tol=1e-12)
            judge_output(ctx, "lanczos.Q", Q, {"truncated": k < n})
            judge_output(ctx, "lanczos.T", T, {})
            if (rng.random() < 0.3 or case.get("force_breakdown")) and n >= 3:
                # a batch in which one start vector is an eigenvector: its Krylov space is exhausted after one step while the
                # other column continues (the frozen columns of the exhausted one are zero)
                w_, E_ = np.linalg.eigh(np.asarray(A.to_dense()))
                Vb = np.stack([E_[:, 0], np.asarray(v)], axis=1).astype(np.asarray(v).dtype if np.iscomplexobj(v) else E_.dtype)
                TAP.on = False
                Qb, Tb, _ = lanczos(A, Vb, max_iters=min(k, n - 1) + 1, tol=1e-10)
                TAP.on = True
                Db = np.asarray(Qb.to_dense())
                for j in range(Db.shape[0]):
                    judge_output(ctx, "lanczos.Q[batched]", Qb, {"breakdown": j == 0}, dense=Db[j])
            if (rng.random() < 0.4 or case.get("force_breakdown")) and n >= 3:
                # unbatched early termination with a budget of at least n steps: the Krylov space is exhausted after d < n steps
                # (d distinct eigenvalues, or a start vector inside a d-dimensional invariant subspace), so the returned basis is
                # n x d (or n x (d+1)): orthonormal columns, not a square unitary matrix
                d = int(rng.integers(1, n - 1)) if n > 3 else 1
                if rng.random() < 0.5:
                    vals = [float(x) for x in np.linspace(-1.0, 2.0, d + 1)[:d] + 0.5]
                    eigs = [vals[i % d] for i in range(n)]
                    A2 = cola.SelfAdjoint(B.build({"k": "Dense", "shape": [n, n], "dt": dt, "seed": S.seed(rng), "gen": "herm", "eigs": eigs}))
                    v2 = np.asarray(v)
                    how = "few-distinct-eigenvalues"
                else:
                    A2 = A
                    w_, E_ = np.linalg.eigh(np.asarray(A.to_dense()))
                    cols = rng.choice(n, size=d, replace=False)
                    v2 = (E_[:, cols] @ (1.0 + rng.random(d))).astype(np.asarray(v).dtype if np.iscomplexobj(v) else E_.dtype)
                    how = "start-in-invariant-subspace"
                budget = S.pick(rng, [n, n + 1, 100, None])
                kw = {} if budget is None else {"max_iters": int(budget)}
                Q2, T2, _ = lanczos(A2, v2, tol=float(S.pick(rng, [1e-7, 1e-9])), **kw)
                ctx.count("lanczos_early_stop", f"{how}:cols{'<' if Q2.shape[1] < n else '='}n")
                judge_output(ctx, "lanczos.Q[early-stop]", Q2, {"short": Q2.shape[1] < n})
                judge_output(ctx, "lanczos.T[early-stop]", T2, {})
        elif r == "arnoldi":
            A = B.build({"k": "Dense", "shape": [n, n], "dt": dt, "seed": S.seed(rng), "gen": "normal"})
            k = int(rng.integers(1, n))  # m < n: m+1 <= n orthonormal columns exist
            v = P.operand(case["seed"], (n, ), dt, "normal")
            Q, H, _ = arnoldi(A, v, max_iters=k, tol=1e-12)
            judge_output(ctx, "arnoldi.Q", Q, {"breakdown": False})
            if (rng.random() < 0.3 or case.get("force_breakdown")) and k >= 2:
                # a start vector in an invariant subspace of dimension 1 or 2 (breakdown: the remaining columns are zero)
                w_, E_ = np.linalg.eig(np.asarray(A.to_dense()))
                ev = E_[:, 0]
                ve = (ev if dt in P.CPLX else (ev.real if np.abs(ev.imag).max() < 1e-12 else None))
                if ve is not None:
                    TAP.on = False  # (judged on the returned operator; the creation tap cannot tell a breakdown run from another)
                    Qe, He, _ = arnoldi(A, ve.astype(P.DT[dt]), max_iters=k, tol=1e-10)
                    TAP.on = True
                    judge_output(ctx, "arnoldi.Q", Qe, {"breakdown": True})
        elif r == "eig":
            kind = S.pick(rng, ["herm", "general", "Identity", "Diagonal", "Triangular"])
            k = int(rng.integers(1, n + 1))
            which = S.pick(rng, ["LM", "SM"])
            if kind == "herm":
                A = cola.SelfAdjoint(B.build(herm(rng, n, dt, False)))
                alg = S.pick(rng, [L.Eigh(), L.Auto(), L.Lanczos(max_iters=n + 2, tol=1e-12)])
            elif kind == "general":
                A = B.build({"k": "Dense", "shape": [n, n], "dt": dt, "seed": S.seed(rng), "gen": "normal"})
                alg = S.pick(rng, [L.Eig(), L.Auto(), L.Arnoldi(max_iters=n, tol=1e-12)])
            elif kind == "Identity":
                A, alg = B.build({"k": "Identity", "n": n, "dt": dt}), L.Auto()
            elif kind == "Diagonal":
                vals = [float(x) for x in (rng.permutation(n) + 1.0) * rng.choice([-1.0, 1.0], size=n)]
                if rng.random() < 0.3:
                    vals[int(rng.integers(0, n))] = 0.0
                A, alg = B.build({"k": "Diagonal", "n": n, "dt": dt, "vals": vals}), L.Auto()
            else:
                A = B.build({"k": "Triangular", "n": n, "dt": dt, "seed": S.seed(rng), "lower": False,
                             "diag": [float(x) for x in rng.permutation(n) + 1.0]})
                alg = L.Auto()
            if k == 1 and which == "LM" and kind in ("herm", "general"):
                which = "SM"  # Auto would pick power iteration (judged in C10)
            out = ctx.call(L.eig, A, k, which, alg)
            if not is_err(out):
                judge_output(ctx, f"eig[{kind}].vectors", out[1], {"k<n": k < n})
        elif r == "svd":
            m = int(rng.integers(2, 9))
            sv = [float(x) for x in np.linspace(1.0, 4.0, min(m, n))]  # well separated, cond 4
            A = B.build({"k": "Dense", "shape": [m, n], "dt": dt, "seed": S.seed(rng), "gen": "svals", "svals": sv})
            full = rng.random() < 0.5
            k = min(m, n) if full else int(rng.integers(1, min(m, n) + 1))
            alg = S.pick(rng, [DenseSVD(), L.Lanczos(max_iters=max(m, n) + 2, tol=1e-12), L.Auto()])
            if rng.random() < 0.3:
                # structural rules: Diagonal with negative / complex / exactly zero / unsorted entries, Identity
                m = n
                if rng.random() < 0.8:
                    pool = [2.0, -1.5, 0.0, 3.0, -0.5, 1.0, 0.0] + ([{"re": 0.0, "im": 2.0}, {"re": 1.0, "im": -1.0}] if dt in P.CPLX else [])
                    A = B.build({"k": "Diagonal", "n": n, "dt": dt, "vals": [pool[int(j)] for j in rng.integers(0, len(pool), size=n)]})
                else:
                    A = B.build({"k": "Identity", "n": n, "dt": dt})
                k = n if full else int(rng.integers(1, n + 1))
                alg = S.pick(rng, [L.Auto(), DenseSVD()])
            out = ctx.call(svd, A, k, "LM", alg)
            if not is_err(out):
                shp = "tall" if m > n else ("wide" if m < n else "square")
                for nm, Op in zip(("U", "Sigma", "V"), out):
                    judge_output(ctx, f"svd[{type(alg).__name__}].{nm}", Op, {"input": shp, "k<min": k < min(m, n)})
        elif r == "unary":
            hs = herm(rng, n, dt, True)
            if rng.random() < 0.5:
                hs["eigs"] = [float(x) for x in np.linspace(0.2, 2.5, n)]  # positive definite, but log / -x are negative on part of it
            A = cola.PSD(B.build(hs))
            fn = S.pick(rng, [L.exp, L.sqrt, L.log, L.isqrt])
            alg = S.pick(rng, [L.Eigh(), L.Lanczos(max_iters=n + 1, tol=1e-12), L.Lanczos(max_iters=n + 1, tol=1e-12), L.Arnoldi(max_iters=n + 1, tol=1e-12), L.Auto()])
            extra = {}
            if case.get("force_complex_f") or rng.random() < 0.3:
                # user functions through apply_unary: real-valued ones (f(A) of a Hermitian A is Hermitian) and complex-valued ones
                # (i A is skew-Hermitian, exp(i A) is unitary: neither is self-adjoint)
                fname = "i*x" if case.get("force_complex_f") else S.pick(rng, ["cube+1", "cos", "neg", "i*x", "exp(ix)"])
                f_ = {"cube+1": lambda x: x**3 + 1, "cos": np.cos, "neg": lambda x: -x, "i*x": lambda x: 1j * x, "exp(ix)": lambda x: np.exp(1j * x)}[fname]
                fn = lambda A_, alg_, f_=f_: L.apply_unary(f_, A_, alg_)  # noqa: E731
                fn.__name__ = "apply_unary"
                extra = {"f": fname, "f_complex_valued": fname in ("i*x", "exp(ix)")}
                if case.get("force_complex_f"):
                    alg = L.Lanczos(max_iters=n + 1, tol=1e-12)
            F = fn(A, alg)
            if type(F).__name__.startswith(("LanczosUnary", "ArnoldiUnary")):
                # a lazy Krylov operator: everything it reports is judged on its action on the identity
                X = np.eye(n, dtype=P.DT[dt] if not extra.get("f_complex_valued") else np.complex128)
                D = np.asarray(F @ X)
                judge_output(ctx, type(F).__name__.split("[")[0], F, dict({"fn": fn.__name__, "spectrum_below_one": hs["eigs"][0] < 1}, **extra), dense=D)
            else:
                judge_output(ctx, "unary.result", F, {})
        elif r == "inv_unitary":
            U = cola.Unitary(B.build({"k": "Dense", "shape": [n, n], "dt": dt, "seed": S.seed(rng), "gen": "orth"}))
            judge_output(ctx, "inv[unitary]", L.inv(U), {})
        elif r == "wrapper":
            name = S.pick(rng, list(NAMES))
            node = true_leaf(rng, n, dt, name)
            A = B.build(node)
            judge_output(ctx, "declared", A, {"declared": name})
            # declaration wrapper applied to an operator of any kind: same action, argument untouched
            # (the declaration is not true here, so the creation tap is off: truth is only promised for true declarations)
            TAP.on = False
            o = S.Opts(dtmode=dt, clean=True, max_dim=5, identity_dt=None)
            spec = S.gen_tree(rng, int(rng.integers(0, 3)), o, (n, n))
            inner = B.build(spec)
            before_ann = set(inner.annotations)
            leaves_before = [array_hash(x) for x in inner.flatten()[0] if isinstance(x, np.ndarray)]
            D0 = np.array(inner.to_dense())
            W = ctx.call(NAMES[name], inner)
            if is_err(W):
                ctx.check("wrapper-same-action", False, site="wrap:" + spec["k"], preds={"error": W.type}, detail=repr(W))
            else:
                D1 = np.asarray(W.to_dense())
                x = P.operand(case["seed"], (n, 2), dt)
                same = D0.shape == D1.shape and np.array_equal(D0, D1, equal_nan=True) and tuple(W.shape) == tuple(inner.shape) \
                    and np.dtype(W.dtype) == np.dtype(inner.dtype) and np.array_equal(np.asarray(W @ x), np.asarray(inner @ x)) \
                    and NAMES[name] in W.annotations
                ctx.check("wrapper-same-action", bool(same), site="wrap:" + spec["k"], preds={"declared": name},
                          detail={"spec": R.signature(spec)})
                untouched = set(inner.annotations) == before_ann and W is not inner and \
                    leaves_before == [array_hash(x) for x in inner.flatten()[0] if isinstance(x, np.ndarray)] and \
                    np.array_equal(np.asarray(inner.to_dense()), D0, equal_nan=True)
                ctx.check("wrapper-leaves-argument-alone", bool(untouched), site="wrap:" + spec["k"], preds={"declared": name},
                          detail={"before": sorted(map(str, before_ann)), "after": sorted(map(str, inner.annotations))})
                ctx.count("wrapped_kind", spec["k"])
    finally:
        TAP.on = False
    quiescent(ctx, "routine:" + r)
