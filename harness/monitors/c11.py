"""C11 - cholesky and plu return structured factors that reproduce the operator (DESIGN 4/C11)."""
import numpy as np

import cola
from cola import ops
from harness import build as B
from harness import refmodel as R
from harness import spec as S
from harness import wellcond as W
from harness.core import is_err
from harness.treecheck import blame, leaf_preds

SIZES = {"quick": 150, "thorough": 3500}
KINDS = ["Dense", "Identity", "Diagonal", "ScalarMul"]
COMPS = ["Kronecker", "BlockDiag"]


def gen(tier, rng, shard, nshards):
    for i in range(SIZES[tier]):
        dt = S.pick(rng, ["f8", "f8", "c16", "c16", "f4", "c8"])
        fn = S.pick(rng, ["cholesky", "plu"])
        n = int(S.pick(rng, [1, 2, 3, 4, 6, 8, 9, 12, 16, 18]))
        depth = int(S.pick(rng, [0, 1, 1, 2]))
        if fn == "cholesky":
            node = W.gen_invertible(rng, depth, dt, n, True, leaf_kinds=KINDS, comps=COMPS)
        elif rng.random() < 0.3:
            # plu of a (declared) positive definite operator: partial pivoting still exchanges rows unless the diagonal dominates
            node = W.gen_invertible(rng, depth, dt, n, True, leaf_kinds=KINDS, comps=COMPS)
            node = spread(node, 100.0 if depth == 0 else 12.0)  # (a wide spectrum: off-diagonal entries larger than diagonal ones)
        else:
            node = W.gen_invertible(rng, depth, dt, n, False, leaf_kinds=KINDS + ["Dense"], comps=COMPS)
        if rng.random() < 0.12:
            # the very same operator object as several (not necessarily adjacent) blocks / factors: BlockDiag(X, Y, X),
            # Kronecker(X, Y, X), with or without multiplicities, possibly inside another composite
            psd_ = fn == "cholesky" or rng.random() < 0.3
            a, b_ = int(rng.integers(1, 4)), int(rng.integers(1, 4))
            X = W.gen_invertible(rng, 0, dt, a, psd_, leaf_kinds=["Dense"])
            Y = W.gen_invertible(rng, int(S.pick(rng, [0, 0, 1])), dt, b_, psd_, leaf_kinds=KINDS, comps=COMPS)
            kind = S.pick(rng, ["BlockDiag", "BlockDiag", "Kronecker"])
            args = S.pick(rng, [[X, Y, X], [X, Y, X], [X, Y, Y, X], [Y, X, Y], [X, X, Y, X]])
            node = {"k": kind, "via": "ctor", "share": True, "args": args}
            if kind == "BlockDiag" and rng.random() < 0.5:
                node["mult"] = [int(rng.integers(1, 3)) for _ in args]
            if rng.random() < 0.25:
                Z = W.gen_invertible(rng, 0, dt, int(rng.integers(1, 3)), psd_, leaf_kinds=KINDS)
                node = {"k": S.pick(rng, COMPS), "via": "ctor", "args": [Z, node] if rng.random() < 0.5 else [node, Z]}
        if rng.random() < 0.15:
            # operators in tiny / huge units (every explicitly valued leaf): the factorization scales with the operator
            node = W.in_units(node, float(S.pick(rng, [1e-9, 1e-19, 1e12] if dt in ("f8", "c16") else [1e-9, 1e6])))
        if dt == "f8" and rng.random() < 0.2:
            node = intify(node, fn)  # integer-dtype Dense operands (cola's own docstrings build operators from integer arrays)
        yield {"spec": node, "fn": fn, "rebuilt": bool(rng.random() < 0.35)}


def spread(node, ratio):
    """The same tree with the eigenvalues of every Hermitian Dense leaf spread geometrically over [1, ratio]."""
    if not isinstance(node, dict):
        return node
    out = {k: ([spread(c, ratio) for c in v] if k == "args" else (spread(v, ratio) if k == "arg" else v)) for k, v in node.items()}
    if out.get("k") in ("Dense", "Generic") and out.get("gen") == "herm" and "eigs" in out and len(out["eigs"]) > 1:
        m = len(out["eigs"])
        out["eigs"] = [float(ratio ** (j / (m - 1))) for j in range(m)]
    return out


def intify(node, fn):
    if not isinstance(node, dict):
        return node
    out = {k: ([intify(c, fn) for c in v] if k == "args" else (intify(v, fn) if k == "arg" else v)) for k, v in node.items()}
    if out.get("k") == "Dense" and len(out.get("shape", [])) == 2 and out["shape"][0] == out["shape"][1]:
        for key in ("eigs", "svals", "vcond"):
            out.pop(key, None)
        out.update(gen="psd_int" if fn == "cholesky" else "intdom", int_dtype=True)
    return out


def pattern_ok(D, kind, tol):
    D = np.asarray(D)
    if kind == "lower":
        return bool(np.abs(np.triu(D, 1)).max(initial=0.0) <= tol)
    if kind == "upper":
        return bool(np.abs(np.tril(D, -1)).max(initial=0.0) <= tol)
    if kind == "perm":
        Dr = D.real if np.iscomplexobj(D) else D
        ok = np.all((np.abs(Dr) <= tol) | (np.abs(Dr - 1) <= tol)) and np.abs(D.imag if np.iscomplexobj(D) else 0).max(initial=0.0) <= tol
        return bool(ok and np.all(np.abs(Dr.sum(0) - 1) <= tol) and np.all(np.abs(Dr.sum(1) - 1) <= tol))
    raise ValueError(kind)


def strip(node):
    while node["k"] == "Annot":
        node = node["arg"]
    return node


def structure_ok(A, F, role):
    """The factor F of an input operator A keeps A's structure (statement: factor-wise for Kronecker and
    block-diagonal inputs, not dense for diagonal / scalar / identity inputs).  The expectation is read off the input
    *operator* (not the spec: cola may already have fused e.g. two Diagonal Kronecker factors).  -> (ok, why)"""
    if isinstance(A, ops.Kronecker):
        if not isinstance(F, ops.Kronecker):
            return False, f"{role}: Kronecker input but factor is {type(F).__name__}"
        if len(F.Ms) != len(A.Ms):
            return False, f"{role}: {len(F.Ms)} Kronecker factors for {len(A.Ms)} inputs"
        for Ac, Fc in zip(A.Ms, F.Ms):
            if tuple(Fc.shape) != tuple(Ac.shape):
                return False, f"{role}: factor shape {Fc.shape} for input {Ac.shape}"
            ok, why = structure_ok(Ac, Fc, role)
            if not ok:
                return ok, why
        return True, None
    if isinstance(A, ops.BlockDiag):
        if not isinstance(F, ops.BlockDiag):
            return False, f"{role}: BlockDiag input but factor is {type(F).__name__}"
        # the same sequence of diagonal blocks (multiplicities may be spelled out or kept: both are block-wise)
        Ab = [M for M, m in zip(A.Ms, A.multiplicities) for _ in range(m)]
        Fb = [M for M, m in zip(F.Ms, F.multiplicities) for _ in range(m)]
        if [tuple(M.shape) for M in Ab] != [tuple(M.shape) for M in Fb]:
            return False, f"{role}: blocks {[tuple(M.shape) for M in Fb]} for input blocks {[tuple(M.shape) for M in Ab]}"
        for Ac, Fc in zip(Ab, Fb):
            ok, why = structure_ok(Ac, Fc, role)
            if not ok:
                return ok, why
        return True, None
    if isinstance(A, (ops.Diagonal, ops.ScalarMul, ops.Identity)):
        bad = [type(x).__name__ for x in _walk_ops(F) if isinstance(x, ops.Dense)]
        if bad:
            return False, f"{role}: {type(A).__name__} input but the factor contains {bad[0]}"
        return True, None
    return True, None


def _walk_ops(op, depth=0):
    yield op
    if depth > 5:
        return
    for M in getattr(op, "Ms", ()) or ():
        if isinstance(M, ops.LinearOperator):
            yield from _walk_ops(M, depth + 1)
    inner = getattr(op, "A", None)
    if isinstance(inner, ops.LinearOperator):
        yield from _walk_ops(inner, depth + 1)


ctx_top = {}


def evaluate(ctx, node, fn, rebuilt=False):
    from cola.linalg.decompositions.decompositions import cholesky, plu
    A = None
    if rebuilt:
        # the operator was rebuilt (flatten / unflatten) from one that had already been factorized, and now holds other data
        rb = B.rebuilt(node, prime=lambda S_: ctx.call(cholesky if fn == "cholesky" else plu, S_))
        if rb is not None:
            A, node = rb
            ctx.count("provenance", "rebuilt-from-factorized-operator")
    ref = R.dense(node)
    n = ref.M.shape[0]
    A = B.build(node) if A is None else A
    cond = float(np.linalg.cond(ref.M))
    amax = float(np.abs(ref.M).max())
    tol = 2e3 * ref.eps * max(cond, 1.0) * n * (max(amax, 1.0) if amax >= 1e-3 else amax)  # (relative to the operator's own scale)
    out = []
    if fn == "cholesky":
        L = ctx.call(cholesky, A)
        if is_err(L):
            return [("returns", False, {"error": repr(L)})]
        out.append(("returns", True, None))
        D = ctx.call(L.to_dense)
        if is_err(D):
            return out + [("factor-densifies", False, {"error": repr(D)})]
        D = np.asarray(D)
        if not np.all(np.isfinite(D)):
            return out + [("finite", False, {"factor": "L"})]
        if D.shape != (n, n):
            return out + [("factor-shapes", False, {"shapes": [list(D.shape)], "n": n})]
        out.append(("lower-triangular", pattern_ok(D, "lower", tol), {"max_above": float(np.abs(np.triu(D, 1)).max(initial=0.0))}))
        err = float(np.abs(D @ D.conj().T - ref.M).max(initial=0.0))
        out.append(("L-LH-equals-A", bool(err <= tol), {"err": err, "tol": tol, "cond": cond}))
        ok, why = structure_ok(A, L, "L")
        out.append(("structure-kept", ok, {"why": why, "type": type(L).__name__}))
        return out
    res = ctx.call(plu, A)
    if is_err(res):
        return [("returns", False, {"error": repr(res)})]
    out.append(("returns", True, None))
    Pm, L, U = res
    dens = []
    for name, F in (("P", Pm), ("L", L), ("U", U)):
        D = ctx.call(F.to_dense)
        if is_err(D):
            return out + [("factor-densifies", False, {"factor": name, "error": repr(D)})]
        D = np.asarray(D)
        if not np.all(np.isfinite(D)):
            return out + [("finite", False, {"factor": name})]
        dens.append(D)
    P_, L_, U_ = dens
    if any(D.shape != (n, n) for D in dens):
        return out + [("factor-shapes", False, {"shapes": [list(D.shape) for D in dens], "n": n})]
    out.append(("P-is-permutation", pattern_ok(P_, "perm", 1e-6), None))
    if node is ctx_top.get("node"):
        ctx.count("plu_row_exchanges", ("declared-PSD:" if node["k"] == "Annot" and node.get("name") == "PSD" else "undeclared:") +
                  ("some" if np.abs(P_ - np.eye(n)).max(initial=0.0) > 0.5 else "none"))
    out.append(("lower-triangular", pattern_ok(L_, "lower", tol), {"max_above": float(np.abs(np.triu(L_, 1)).max(initial=0.0))}))
    out.append(("upper-triangular", pattern_ok(U_, "upper", tol), {"max_below": float(np.abs(np.tril(U_, -1)).max(initial=0.0))}))
    err = float(np.abs(P_ @ L_ @ U_ - ref.M).max(initial=0.0))
    out.append(("P-L-U-equals-A", bool(err <= tol), {"err": err, "tol": tol, "cond": cond}))
    for name, F in (("P", Pm), ("L", L), ("U", U)):
        ok, why = structure_ok(A, F, name)
        out.append(("structure-kept", ok, {"why": why, "type": type(F).__name__}))
    return out


def run_case(ctx, case):
    node, fn = case["spec"], case["fn"]
    ref = R.dense(node)
    if np.linalg.cond(ref.M) > 300:
        ctx.note("skipped_out_of_regime_cond")
        return
    ctx.begin_case(case, sig=fn + "|" + R.signature(node), nontrivial=True)
    for k in set(R.kinds(node)):
        ctx.count("kind", k)
    ctx.count("fn", fn)
    ctx_top["node"] = node
    results = evaluate(ctx, node, fn)
    if case.get("rebuilt") and all(k_ for _, k_, _ in results):
        for oracle, ok, detail in evaluate(ctx, node, fn, rebuilt=True):
            ctx.check(oracle + "[rebuilt-operator]", bool(ok), site=strip(node)["k"], preds={"fn": fn}, detail={"detail": detail, "spec": R.signature(node)})
    for oracle, ok, detail in results:
        if ok:
            ctx.check(oracle, True)
            continue

        def fails(nd):
            s_ = R.shape_of(nd)
            if s_[0] != s_[1]:
                return False
            return any(o == oracle and not k_ for o, k_, _ in evaluate(ctx, nd, fn))

        culprit = blame(node, fails)
        preds = leaf_preds(culprit)
        preds["fn"] = fn
        cm = R.dense(culprit)
        preds["complex"] = cm.dtype.kind == "c"
        sc = strip(culprit)
        if sc["k"] in ("Diagonal", "ScalarMul"):
            d = np.diag(cm.M)
            preds["entries"] = "positive" if np.all(np.abs(d.imag) < 1e-12) and np.all(d.real > 0) else "negative-or-complex"
        ctx.check(oracle, False, site=sc["k"], preds=preds,
                  detail={"detail": detail, "blamed": culprit if R.depth(culprit) <= 1 else R.signature(culprit)})
