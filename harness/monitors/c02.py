"""C02 - transpose, adjoint and left-multiplication agree with the represented matrix (DESIGN 4/C02)."""
import itertools

import numpy as np

import cola
from harness import build as B
from harness import payload as P
from harness import refmodel as R
from harness import spec as S
from harness import wellcond as W
from harness.core import is_err
from harness.treecheck import blame, leaf_preds

SIZES = {"quick": 150, "thorough": 3000}
DTMODES = ["f4", "f8", "c8", "c16", "c16", "mixed", "mixed_cplx"]
TOWERS = [t for d in (1, 2, 3) for t in itertools.product("TH", repeat=d)]


def annotated_base(rng, dt):
    """Leaves that are *truly* SelfAdjoint / PSD / Unitary and declared so (incl. complex Hermitian)."""
    n = int(rng.integers(1, 7))
    name = S.pick(rng, ["SelfAdjoint", "PSD", "Unitary", "SelfAdjoint"])
    g = {"SelfAdjoint": "herm", "PSD": "psd_int", "Unitary": "orth"}[name]
    leaf = {"k": S.pick(rng, ["Dense", "Dense", "Generic"]), "shape": [n, n], "dt": dt, "seed": S.seed(rng), "gen": g}
    node = {"k": "Annot", "name": name, "arg": leaf}
    r = rng.random()
    if r < 0.3:  # composites that keep the annotation
        other = {"k": "Annot", "name": name,
                 "arg": {"k": "Dense", "shape": [n, n], "dt": dt, "seed": S.seed(rng), "gen": g}}
        kind = S.pick(rng, ["Kronecker", "BlockDiag"] + (["Sum"] if name != "Unitary" else []))
        node = {"k": kind, "via": "ctor", "args": [node, other]}
    elif r < 0.4:
        node = {"k": "Product", "via": "fn", "args": [{"k": "ScalarMul", "n": n, "dt": dt, "c": 2.0}, node]}
    elif r < 0.7 and n >= 2:
        # a slice of a declared operator whose row and column selectors pick the *same index set in another order* (reversed
        # rows, permuted index arrays): not a principal sub-matrix, so not Hermitian
        kind_ = S.pick(rng, ["reverse-rows", "reverse-both-one-way", "perm-arrays", "negative-stride"])
        if kind_ == "reverse-rows":
            sl = [{"s": [None, None, -1]}, {"s": [0, n, None]}]
        elif kind_ == "reverse-both-one-way":
            sl = [{"s": [n - 1, 0, -1]}, {"s": [1, n, None]}]
        elif kind_ == "negative-stride":
            sl = [{"s": [None, None, -1]}, {"i": [int(i) for i in range(n)]}]
        else:
            idx = [int(i) for i in rng.permutation(n)[:max(2, n - 1)]]
            sl = [{"i": idx}, {"i": sorted(idx)}]
            if idx == sorted(idx):
                sl = [{"i": idx[::-1]}, {"i": idx}]
        node = {"k": "Sliced", "via": S.pick(rng, ["ctor", "fn"]), "slices": sl, "arg": node}
    elif r < 0.8 and name in ("SelfAdjoint", "PSD"):
        # a scalar multiple of a declared Hermitian operator: real multiples stay Hermitian, complex ones do not (c A)^H = conj(c) A
        c = S.pick(rng, [-2.0, 0.5] + ([{"re": 1.0, "im": 2.0}, {"re": 0.0, "im": -1.0}, {"re": -0.5, "im": 0.5}] * 2 if dt in P.CPLX else []))
        node = {"k": "Scaled", "c": c, "side": S.pick(rng, ["l", "r"]), "arg": node}
    return node


def gen(tier, rng, shard, nshards):
    n = SIZES[tier]
    for i in range(n):
        dtm = S.pick(rng, DTMODES)
        r_ = rng.random()
        if r_ < 0.3:
            dt = S.pick(rng, S.ALL_DT) if dtm.startswith("mixed") else dtm
            node = annotated_base(rng, dt)
        elif r_ < 0.4:
            # towers of views over the *results of routines* on structured arguments (lazy triangular / factor-wise / nested
            # inverses: each inverse rule returns its own kind of object with its own transpose rule), alone or inside a composite
            dt = S.pick(rng, S.ALL_DT) if dtm.startswith("mixed") else dtm
            node = W.gen_routine_directed(rng, dt)
            if rng.random() < 0.3:
                n_ = R.shape_of(node)[0]
                other = {"k": "Dense", "shape": [n_, n_], "dt": dt, "seed": S.seed(rng)}
                node = {"k": S.pick(rng, ["Sum", "Product", "Kronecker", "BlockDiag"]), "via": "ctor", "args": [node, other] if rng.random() < 0.5 else [other, node]}
        else:
            o = S.Opts(dtmode=dtm, clean=rng.random() < 0.9, max_dim=int(S.pick(rng, [4, 6, 8])), routines=0.08)
            node = S.gen_tree(rng, int(S.pick(rng, [0, 1, 1, 2, 2, 3])), o)
        xdt = S.pick(rng, S.ALL_DT)
        towers = TOWERS if tier == "thorough" else [TOWERS[int(j)] for j in rng.choice(len(TOWERS), 5, replace=False)]
        yield {"spec": node, "towers": ["".join(t) for t in towers], "xdt": xdt, "xcols": int(S.pick(rng, [1, 2, 3])),
               "xseed": S.seed(rng)}


def apply_tower(A, tower):
    for t in tower:
        A = A.T if t == "T" else A.H
    return A


def ref_tower(ref, tower):
    M, Bd = ref.M, ref.B
    for t in tower:
        M = M.T if t == "T" else M.conj().T
        Bd = Bd.T
    return M, Bd


def evaluate(oracle, node, tower, case, ctx):
    """-> (ok, detail).  tower '' = the operator itself (left products)."""
    ref = R.dense(node)
    A = ctx.call(B.build, node)
    if is_err(A):
        return True, None  # construction is C01's business
    T = ctx.call(apply_tower, A, tower)
    if is_err(T):
        return False, {"error": repr(T)}
    M, Bd = ref_tower(ref, tower)
    m, n = M.shape
    xdt = case["xdt"]

    def eps(*arrs):
        return max([ref.eps] + [R.eps_of(np.asarray(a).dtype) for a in arrs if np.asarray(a).dtype.kind in "fc"])

    if oracle == "shape":
        return tuple(T.shape) == (m, n), {"got": list(T.shape), "want": [m, n]}
    if oracle == "dtype":
        return np.dtype(T.dtype) == ref.dtype, {"got": str(np.dtype(T.dtype)), "want": str(ref.dtype)}
    if oracle == "dense":
        D = ctx.call(T.to_dense)
        if is_err(D):
            return False, {"error": repr(D)}
        return R.close(D, M, Bd, ref.dtype, eps=eps(D))
    if oracle == "right":
        x = P.operand(case["xseed"], (n, case["xcols"]), xdt)
        y = ctx.call(lambda: T @ x)
        if is_err(y):
            return False, {"error": repr(y)}
        return R.close(y, M @ x, Bd @ np.abs(x), np.result_type(ref.dtype, x.dtype), eps=eps(x, y))
    if oracle in ("left-vec", "left-mat"):
        shape = (m, ) if oracle == "left-vec" else (case["xcols"], m)
        x = P.operand(case["xseed"] + 1, shape, xdt)
        y = ctx.call(lambda: x @ T)
        if is_err(y):
            return False, {"error": repr(y)}
        return R.close(y, x @ M, np.abs(x) @ Bd, np.result_type(ref.dtype, x.dtype), eps=eps(x, y))
    if oracle == "after-every-width":
        # hostile history on one operator object: products from both sides with operands of *every* width first (whatever the
        # object keeps between calls - a workspace keyed by shape, a cached transpose - must not leak into the next product), then
        # left and right products judged against the reference
        W_ = max(m, n) + 2
        dtx = P.DT[xdt]
        for w in range(1, W_ + 1):
            r1 = ctx.call(lambda: T @ np.ones((n, w), dtype=dtx))
            r2 = ctx.call(lambda: np.ones((w, m), dtype=dtx) @ T)
            if is_err(r1) or is_err(r2):
                return True, None  # (judged by the plain product oracles)
        out = {}
        for w in sorted({1, min(m, n), m, n}):
            x = P.operand(case["xseed"] + 3 * w, (n, w), xdt)
            xl = P.operand(case["xseed"] + 3 * w + 1, (w, m), xdt)
            yl = ctx.call(lambda: xl @ T)
            y = ctx.call(lambda: T @ x)
            if is_err(y) or is_err(yl):
                return False, {"error": repr(y if is_err(y) else yl), "width": w}
            ok1, d1 = R.close(yl, xl @ M, np.abs(xl) @ Bd, np.result_type(ref.dtype, xl.dtype), eps=eps(xl, yl))
            ok2, d2 = R.close(y, M @ x, Bd @ np.abs(x), np.result_type(ref.dtype, x.dtype), eps=eps(x, y))
            if not (ok1 and ok2):
                return False, {"width": w, "left": d1, "right": d2}
        return True, None
    if oracle == "involution":  # tower in ("TT", "HH"): represents A again (matrix, shape, dtype, annotations)
        D = ctx.call(T.to_dense)
        if is_err(D):
            return False, {"error": repr(D)}
        ok, d = R.close(D, ref.M, ref.B, ref.dtype, eps=eps(D))
        if not ok:
            return ok, d
        if tuple(T.shape) != tuple(A.shape) or np.dtype(T.dtype) != np.dtype(A.dtype):
            return False, {"why": "shape/dtype", "got": [list(T.shape), str(T.dtype)]}
        # annotations: the statement only asks that A.T.T / A.H.H *represent* A; an implementation may forget an
        # annotation on the way (recorded as coverage), it may not invent one (that is C05's business)
        ctx.count("involution_annotations", "kept" if set(T.annotations) == set(A.annotations) else "changed")
        return True, None
    raise ValueError(oracle)


VALUE = ("dense", "right", "left-vec", "left-mat", "involution", "after-every-width")


def run_case(ctx, case):
    node = case["spec"]
    ks = R.kinds(node)
    ctx.begin_case(case, sig=R.signature(node) + "|" + ",".join(case["towers"]) + f"|{case['xdt']}",
                   nontrivial=True)
    for k in set(ks):
        ctx.count("kind", k)
    ctx.count("depth", R.depth(node))
    annots = [nd for nd in _walk(node) if nd["k"] == "Annot"]
    for a in annots:
        ctx.count("declared", a["name"] + ":" + ("complex" if a["arg"].get("dt") in P.CPLX else "real"))
    jobs = [("", o) for o in ("left-vec", "left-mat")]
    for tw in case["towers"]:
        ctx.count("tower", tw)
        jobs += [(tw, o) for o in ("shape", "dtype", "dense", "right", "left-vec", "left-mat")]
    jobs += [("TT", "involution"), ("HH", "involution")]
    if R.shape_of(node)[0] <= 8 and R.shape_of(node)[1] <= 8:
        jobs += [("", "after-every-width"), (case["towers"][0], "after-every-width")]
    for tower, oracle in jobs:
        ok, detail = evaluate(oracle, node, tower, case, ctx)
        name = oracle if oracle in ("involution", "after-every-width") else ("left-product" if oracle.startswith("left") and tower == ""
                                                          else f"tower-{oracle}")
        if ok:
            ctx.check(name, True)
            continue
        group = VALUE if oracle in VALUE else (oracle, )
        tws = [tower, "", "T"] if oracle in VALUE else [tower]
        culprit = blame(node, lambda nd: any(not evaluate(o, nd, tw, case, ctx)[0] for o in group for tw in tws
                                             if not (o == "involution" and tw not in ("TT", "HH"))))
        preds = leaf_preds(culprit)
        preds["tower"] = "".join(sorted(set(tower))) or "-"
        if culprit["k"] == "Annot":
            preds["declared"] = culprit["name"]
            preds["complex"] = culprit["arg"].get("dt") in P.CPLX
        ctx.check(name, False, site=culprit["k"], preds=preds,
                  detail={"tower": tower, "detail": detail,
                          "blamed": culprit if R.depth(culprit) <= 1 else R.signature(culprit)})


def _walk(node):
    yield node
    for c in R.children(node):
        yield from _walk(c)
