"""Generators of well-conditioned invertible / positive-definite operator trees (used by C06, C07, C09, C11, C19)."""
import numpy as np

from harness import spec as S


def lin(lo, hi, n):
    return [float(x) for x in np.linspace(lo, hi, n)]


def psd_leaf(rng, n, dt, kinds=None):
    k = S.pick(rng, kinds or ["Dense", "Dense", "Diagonal", "ScalarMul", "Identity", "Tridiagonal"])
    if k == "Dense":
        return {"k": "Annot", "name": "PSD",
                "arg": {"k": "Dense", "shape": [n, n], "dt": dt, "seed": S.seed(rng), "gen": "herm", "eigs": lin(1.0, 2.5, n)}}
    if k == "Diagonal":
        return {"k": "Annot", "name": "PSD", "arg": {"k": "Diagonal", "n": n, "dt": dt,
                                                        "vals": [float(x) for x in rng.integers(1, 4, size=n)]}}
    if k == "ScalarMul":
        return {"k": "Annot", "name": "PSD", "arg": {"k": "ScalarMul", "n": n, "dt": dt, "c": float(S.pick(rng, [0.5, 2.0, 3.0]))}}
    if k == "Tridiagonal":
        return {"k": "Annot", "name": "PSD", "arg": {"k": "Tridiagonal", "n": n, "dt": dt, "seed": S.seed(rng), "dominant": True,
                                                        "sym": True}}
    return {"k": "Identity", "n": n, "dt": dt}


def gen_leaf(rng, n, dt, kinds=None):
    cplx = dt in ("c8", "c16")
    k = S.pick(rng, kinds or ["Dense", "Dense", "Triangular", "Triangular", "Diagonal", "ScalarMul", "Identity", "Permutation",
                              "Unitary", "Householder", "Tridiagonal", "PSD"])
    if k == "Dense":
        return {"k": "Dense", "shape": [n, n], "dt": dt, "seed": S.seed(rng), "gen": "svals", "svals": lin(1.0, 3.0, n)}
    if k == "Triangular":
        d = [float(x) for x in rng.choice([1.0, 2.0, -1.0, -2.0, 1.5], size=n)]
        if cplx:
            d = [{"re": x, "im": float(rng.integers(-1, 2))} for x in d]
        return {"k": "Triangular", "n": n, "dt": dt, "seed": S.seed(rng), "lower": bool(rng.random() < 0.5), "diag": d}
    if k == "Diagonal":
        v = [float(x) for x in rng.choice([1.0, 2.0, 3.0, -1.0, -2.0, -3.0], size=n)]
        if cplx:
            v = [{"re": x, "im": float(rng.integers(-1, 2))} for x in v]
        return {"k": "Diagonal", "n": n, "dt": dt, "vals": v}
    if k == "ScalarMul":
        c = S.pick(rng, [2.0, -0.5, 3.0, -2.0] + ([{"re": 1.0, "im": 1.0}, {"re": 0.0, "im": -2.0}] if cplx else []))
        return {"k": "ScalarMul", "n": n, "dt": dt, "c": c}
    if k == "Identity":
        return {"k": "Identity", "n": n, "dt": dt}
    if k == "Permutation":
        return {"k": "Permutation", "perm": [int(i) for i in rng.permutation(n)], "dt": dt}
    if k == "Unitary":
        return {"k": "Annot", "name": "Unitary", "arg": {"k": "Dense", "shape": [n, n], "dt": dt, "seed": S.seed(rng), "gen": "orth"}}
    if k == "Householder":
        return {"k": "Householder", "n": n, "dt": dt, "seed": S.seed(rng), "unit": True}
    if k == "Tridiagonal":
        return {"k": "Tridiagonal", "n": n, "dt": dt, "seed": S.seed(rng), "dominant": True}
    return psd_leaf(rng, n, dt)


PLAIN_LEAVES = ["Dense", "Dense", "Triangular", "Triangular", "Diagonal", "Householder", "Tridiagonal"]


def gen_invertible(rng, depth, dt, n=None, psd=False, leaf_kinds=None, comps=None, plain=False):
    """Well-conditioned invertible (psd=True: Hermitian positive definite and *reporting* PSD) expression tree.

    plain=True: no sub-expression reports an annotation.  Used under scalar multiples, because of the open finding
    (C05, Scaled/Product): c*A and Product[ScalarMul, A] inherit A's annotations whatever the scalar, and every
    annotation-driven shortcut downstream (inv of 'unitary', Cholesky for 'PSD', ...) then acts on a false premise."""
    n = int(rng.integers(1, 7)) if n is None else n
    if plain and leaf_kinds is None:
        leaf_kinds = PLAIN_LEAVES
    if depth <= 0 or n == 1:
        return psd_leaf(rng, n, dt, leaf_kinds) if psd else gen_leaf(rng, n, dt, leaf_kinds)
    d = depth - 1
    pool = comps or (["Kronecker", "BlockDiag", "Sum", "Scaled+"] if psd else
                     ["Product", "Kronecker", "BlockDiag", "Transpose", "Adjoint", "Scaled", "Product"])
    for _ in range(8):
        k = S.pick(rng, pool)
        if k == "Product":
            args = [gen_invertible(rng, d, dt, n, False, leaf_kinds, comps, plain) for _ in range(int(rng.integers(2, 4)))]
            if any(a["k"] == "ScalarMul" for a in args):  # see `plain` above
                args = [a if a["k"] != "ScalarMul" else gen_leaf(rng, n, dt, PLAIN_LEAVES) for a in args]
            return {"k": "Product", "via": S.pick(rng, ["ctor", "fn"]), "args": args}
        if k == "Kronecker":
            if n < 4:
                continue
            fs = [f for f in S.factorize(rng, n, int(rng.integers(2, 4))) if f > 1]
            if len(fs) < 2:
                continue
            return {"k": "Kronecker", "via": S.pick(rng, ["ctor", "fn"]),
                    "args": [gen_invertible(rng, min(d, 1), dt, f, psd, leaf_kinds, comps, plain) for f in fs]}
        if k == "BlockDiag":
            b = int(rng.integers(1, 4))
            mults = [int(rng.integers(1, 3)) for _ in range(b)]
            sizes = S.partition(rng, n, mults)
            if sizes is None:
                continue
            return {"k": "BlockDiag", "via": "ctor", "mult": mults,
                    "args": [gen_invertible(rng, min(d, 1), dt, s, psd, leaf_kinds, comps, plain) for s in sizes]}
        if k in ("Transpose", "Adjoint"):
            return {"k": k, "via": S.pick(rng, ["ctor", "fn"]), "arg": gen_invertible(rng, d, dt, n, False, leaf_kinds, comps, plain)}
        if k == "Scaled":
            c = S.pick(rng, [2.0, -0.5, -3.0] + ([{"re": 1.0, "im": -1.0}] if dt in ("c8", "c16") else []))
            return {"k": "Scaled", "c": c, "arg": gen_invertible(rng, d, dt, n, False, None if leaf_kinds is None else leaf_kinds,
                                                             comps, True)}
        if k == "Scaled+":
            # cola does not infer PSD for every positive multiple (c * ScalarMul is a fresh ScalarMul): declare it (truthfully)
            return {"k": "Annot", "name": "PSD", "arg": {"k": "Scaled", "c": float(S.pick(rng, [2.0, 0.5, 3.0])),
                                                           "arg": gen_invertible(rng, d, dt, n, True, leaf_kinds, comps)}}
        if k == "Sum":
            return {"k": "Sum", "via": S.pick(rng, ["ctor", "fn"]),
                    "args": [gen_invertible(rng, d, dt, n, True, leaf_kinds, comps) for _ in range(2)]}
    return psd_leaf(rng, n, dt, leaf_kinds) if psd else gen_leaf(rng, n, dt, leaf_kinds)


def in_units(node, u):
    """The same tree with every leaf whose values are given explicitly (Diagonal vals, ScalarMul c, spectra of Dense / Generic
    leaves) expressed in another unit u: conditioning and definiteness are unchanged, the entries are tiny / huge."""
    if not isinstance(node, dict):
        return node
    out = {k: ([in_units(c, u) for c in v] if k in ("args", "head", "tail") else (in_units(v, u) if k == "arg" else v)) for k, v in node.items()}
    if "args" in out or "arg" in out:
        return out

    def sc(e):
        return {"re": e["re"] * u, "im": e["im"] * u} if isinstance(e, dict) else e * u
    if out.get("k") == "Diagonal" and "vals" in out:
        out["vals"] = [sc(e) for e in out["vals"]]
    elif out.get("k") == "ScalarMul":
        out["c"] = sc(out["c"])
    elif out.get("k") in ("Dense", "Generic"):
        for key in ("eigs", "svals"):
            if key in out:
                out[key] = [sc(e) for e in out[key]]
    return out


def _gen_routine(rng, dt, n=None, fns=None, depth=None, shape=None):
    """A sub-expression that is the *result of a cola routine* applied to a well-conditioned argument (DESIGN 4.25): lazy
    inverses and pseudo-inverses, matrix functions, Cholesky factors, products of plu / svd factors."""
    n = int(rng.integers(1, 6)) if n is None else n
    fn = S.pick(rng, fns or ["inv", "inv", "inv", "pinv", "exp", "sqrt", "isqrt", "pow2", "pow-1", "pow0.5", "log", "cholL", "pluprod", "svdprod"])
    depth = int(S.pick(rng, [0, 0, 1])) if depth is None else depth
    f8 = dt in ("f8", "c16")
    if fn == "inv":
        psd = rng.random() < 0.4
        arg = gen_invertible(rng, depth, dt, n, psd)
        algs = [None, "Auto", "LU"] + (["Cholesky", "CG"] if psd and f8 else (["Cholesky"] if psd else [])) + (["GMRES"] if f8 and not psd else [])
        return {"k": "Routine", "fn": "inv", "alg": S.pick(rng, algs), "arg": arg}
    if fn == "pinv":
        if shape is None:  # (shape: of the *result*; the argument has the transposed shape)
            shape = [n, n]
        shape = [shape[1], shape[0]]
        arg = {"k": "Dense", "shape": shape, "dt": dt, "seed": S.seed(rng), "gen": "svals", "svals": lin(1.0, 3.0, min(shape))}
        return {"k": "Routine", "fn": "pinv", "alg": S.pick(rng, [None, "LSTSQ"]), "arg": arg}
    if fn in ("pluprod", "svdprod"):
        arg = gen_invertible(rng, depth, dt, n, False, plain=True)
        return {"k": "Routine", "fn": fn, "alg": None, "arg": arg}
    # matrix functions and Cholesky: Hermitian positive definite arguments (reporting PSD)
    arg = gen_invertible(rng, depth, dt, n, True)
    if fn == "cholL":
        return {"k": "Routine", "fn": fn, "alg": None, "arg": arg}
    return {"k": "Routine", "fn": fn, "alg": S.pick(rng, [None, "Auto", "Eigh"] + (["Lanczos"] if f8 else [])), "arg": arg}


def direct_only(node):
    """The same tree with every routine result obtained through a direct algorithm (an empty selection of a lazily evaluated
    Krylov result would ask the iteration for zero right-hand sides, which the solver statements C12-C15 do not admit)."""
    if not isinstance(node, dict):
        return node
    out = {k: ([direct_only(c) for c in v] if k in ("args", "head", "tail") else (direct_only(v) if k == "arg" else v)) for k, v in node.items()}
    if out.get("k") == "Routine" and out.get("alg") in ("CG", "GMRES", "Lanczos", "Arnoldi"):
        out["alg"] = None
    return out


def _gen_routine_directed(rng, dt, n=None):
    """Routine results over *structured* arguments and over other routine results (each inverse rule returns its own kind of
    lazy object: TriangularInv, permutation, factor-wise Kronecker / BlockDiag / Product of inverses, ...)."""
    n = int(rng.integers(1, 6)) if n is None else n
    tri = lambda m: gen_leaf(rng, m, dt, ["Triangular"])  # noqa: E731
    psd = lambda m: gen_invertible(rng, 0, dt, m, True, ["Dense"])  # noqa: E731
    chol = lambda m: {"k": "Routine", "fn": "cholL", "alg": None, "arg": psd(m)}  # noqa: E731
    alg = S.pick(rng, [None, None, "Auto", "LU"])
    form = S.pick(rng, ["tri", "tri", "chol-inv", "cholH-inv", "kron-tri", "bd", "perm", "prod", "inv-inv", "tri-T", "diag", "plu-U", "iter", "iter"])
    if form == "iter":
        # lazy inverses through the iterative solvers, run to convergence (their views solve the transposed / adjoint system)
        if dt in ("f8", "c16") and rng.random() < 0.5:
            return {"k": "Routine", "fn": "inv", "alg": "CG", "arg": psd(n)}
        if dt in ("f8", "c16"):
            return {"k": "Routine", "fn": "inv", "alg": "GMRES", "arg": gen_leaf(rng, n, dt, ["Dense"])}
        form = "tri"
    if form == "tri":
        arg = tri(n)
    elif form == "chol-inv":
        arg = chol(n)
    elif form == "cholH-inv":
        arg = {"k": S.pick(rng, ["Adjoint", "Transpose"]) if dt in ("f4", "f8") else "Adjoint", "via": S.pick(rng, ["ctor", "fn"]), "arg": chol(n)}
    elif form == "kron-tri":
        divs = [d for d in range(1, n + 1) if n % d == 0]
        a = int(S.pick(rng, divs))
        arg = {"k": "Kronecker", "via": "ctor", "args": [tri(a), S.pick(rng, [tri, chol])(n // a)]}
    elif form == "bd" and n >= 2:
        mu = 2 if (n >= 3 and rng.random() < 0.5) else 1
        a = int(rng.integers(1, (n - 1) // mu + 1))
        arg = {"k": "BlockDiag", "via": "ctor", "mult": [mu, 1], "args": [tri(a), gen_leaf(rng, n - mu * a, dt, ["Dense", "Triangular", "Diagonal"])]}
    elif form == "bd":
        arg = tri(n)
    elif form == "perm":
        arg = gen_leaf(rng, n, dt, ["Permutation"])
    elif form == "prod":
        arg = {"k": "Product", "via": S.pick(rng, ["ctor", "fn"]), "args": [tri(n), gen_leaf(rng, n, dt, ["Dense", "Triangular", "Permutation"])]}
    elif form == "inv-inv":
        arg = {"k": "Routine", "fn": "inv", "alg": S.pick(rng, [None, "Auto", "LU"]), "arg": gen_leaf(rng, n, dt, ["Dense", "Triangular", "Diagonal"])}
    elif form == "tri-T":
        arg = {"k": S.pick(rng, ["Adjoint", "Transpose"]), "via": S.pick(rng, ["ctor", "fn"]), "arg": tri(n)}
    elif form == "diag":
        arg = gen_leaf(rng, n, dt, ["Diagonal", "ScalarMul"])
    else:  # the triangular factors plu hands out, inverted one by one:  inv(U) @ inv(L) @ P^T  (as a product of routine results)
        arg = gen_leaf(rng, n, dt, ["Dense"])
    return {"k": "Routine", "fn": "inv", "alg": alg, "arg": arg}


def no_identity(node):
    """The same tree with Identity leaves replaced by a Diagonal of ones.  (Routine results of an Identity are Identity objects
    again - inv(I), pow(I, 2), sqrt(I) - and a product built with @ drops Identity factors together with their dtype: the
    recorded C01 finding, which the clean workloads keep out by pinning the dtype of *literal* Identity leaves only.)"""
    if not isinstance(node, dict):
        return node
    if node.get("k") == "Identity":
        return {"k": "Annot", "name": "PSD", "arg": {"k": "Diagonal", "n": node["n"], "dt": node["dt"], "vals": [1.0] * node["n"]}}
    return {k: ([no_identity(c) for c in v] if k in ("args", "head", "tail") else (no_identity(v) if k in ("arg", "other") else v)) for k, v in node.items()}


def gen_routine(rng, dt, n=None, fns=None, depth=None, shape=None):
    return no_identity(_gen_routine(rng, dt, n, fns, depth, shape))


def gen_routine_directed(rng, dt, n=None):
    return no_identity(_gen_routine_directed(rng, dt, n))
